module verif/tool

go 1.22
