package main

func cmdCheck(args []string) int    { return 2 }
func cmdReplay(args []string) int   { return 2 }
func cmdSelftest(args []string) int { return 2 }
