package main

import (
	"fmt"
	"os"
	"path/filepath"
	"sort"
	"strconv"
	"strings"

	"verif/tool/internal/build"
)

// cmdSelftest: determinism self-test. Every (property, seed) of the sample is executed reps times in separate
// worker processes at GOMAXPROCS 1, 4 and 16; all log hashes (and tape lengths) must agree.
func cmdSelftest(args []string) int {
	seeds, reps := 30, 10
	dump := "" // directory receiving the log of every execution, named by its hash (debugging aid)
	var props []string
	for i := 0; i < len(args); i++ {
		switch args[i] {
		case "--seeds":
			i++
			seeds, _ = strconv.Atoi(args[i])
		case "--reps":
			i++
			reps, _ = strconv.Atoi(args[i])
		case "--dump":
			i++
			dump = args[i]
			os.MkdirAll(dump, 0o755)
		default:
			props = append(props, args[i])
		}
	}
	if len(props) == 0 {
		for id := range specs {
			props = append(props, id)
		}
		sort.Strings(props)
	}
	b, err := build.Build(repoDir(), filepath.Join(verifDir(), "sim"))
	if b != nil {
		defer os.RemoveAll(b.Scratch)
	}
	if err != nil {
		fmt.Fprintln(os.Stderr, "BUILD TROUBLE:", err)
		return 2
	}
	base := envInt("VERIF_SEED", 7)
	type key struct {
		prop, profile string
		seed          int64
	}
	ref := map[key]string{}
	bad := 0
	total := 0
	for rep := 0; rep < reps; rep++ {
		gm := []string{"1", "4", "16"}[rep%3]
		pool := NewPool(b.Worker, 16)
		pool.gomax = gm
		pool.recycle = 7 + rep // vary how runs are packed into processes
		pool.Start()
		go func() {
			id := 0
			for _, p := range props {
				spec := specs[p]
				profiles := spec.Profiles
				if len(profiles) == 0 {
					profiles = []string{""}
				}
				for s := 0; s < seeds; s++ {
					id++
					j := &Job{ID: id, Prop: p, Profile: profiles[s%len(profiles)], Seed: base*7919 + int64(s), WantLog: dump != ""}
					if spec.Cells > 0 {
						j.Knobs = map[string]int{"cell": s % spec.Cells}
					}
					if dk := os.Getenv("VERIF_KNOBS"); dk != "" { // e.g. VERIF_KNOBS=uyield=1: determinism of the unlock-yield pass
						if j.Knobs == nil {
							j.Knobs = map[string]int{}
						}
						for _, kv := range strings.Split(dk, ",") {
							if i := strings.Index(kv, "="); i > 0 {
								v, _ := strconv.Atoi(kv[i+1:])
								j.Knobs[kv[:i]] = v
							}
						}
					}
					pool.jobs <- j
				}
			}
			pool.Stop()
		}()
		for res := range pool.results {
			total++
			k := key{res.Prop, res.Profile, res.Seed}
			h := res.Hash + fmt.Sprintf("/%d", res.TapeLen)
			if res.Crashed {
				h = "crash:" + res.CrashSite
			}
			if res.Trouble != "" {
				h = "trouble:" + res.Trouble
			}
			if dump != "" {
				os.WriteFile(filepath.Join(dump, fmt.Sprintf("%s-%d-%s.log", res.Prop, res.Seed, res.Hash)), []byte(strings.Join(res.Log, "\n")), 0o644)
			}
			if prev, ok := ref[k]; !ok {
				ref[k] = h
			} else if prev != h {
				bad++
				if bad <= 10 {
					fmt.Printf("MISMATCH %s/%s seed=%d: %s vs %s (GOMAXPROCS=%s)\n", res.Prop, res.Profile, res.Seed, prev, h, gm)
				}
			}
		}
	}
	fmt.Printf("selftest: %d executions of %d (property,seed) pairs over GOMAXPROCS 1/4/16, %d mismatches\n", total, len(ref), bad)
	if bad > 0 {
		return 2
	}
	return 0
}
