package main

import (
	"bufio"
	"bytes"
	"encoding/json"
	"fmt"
	"io"
	"os"
	"os/exec"
	"path/filepath"
	"strings"
	"sync"
	"syscall"
	"time"
)

// Job mirrors simworld.Job.
type Job struct {
	ID      int            `json:"id"`
	Prop    string         `json:"prop"`
	Profile string         `json:"profile,omitempty"`
	Seed    int64          `json:"seed"`
	Replay  map[string]int `json:"replay,omitempty"`
	IsRep   bool           `json:"is_replay,omitempty"`
	WantLog bool           `json:"want_log,omitempty"`
	Tier    string         `json:"tier,omitempty"`
	Knobs   map[string]int `json:"knobs,omitempty"`
	// RaceFiles (race pass only): a data race counts when both accesses lie in one of these files
	RaceFiles []string `json:"race_files,omitempty"`
}

type Violation struct {
	Rule string `json:"rule"`
	Msg  string `json:"msg"`
	Step int    `json:"step"`
	At   string `json:"at"`
}

type Stats struct {
	SchedSteps      int            `json:"sched_steps"`
	ExternalSteps   int            `json:"external_steps"`
	StepsWithChoice int            `json:"steps_with_choice"`
	NonNatural      int            `json:"non_natural"`
	HoldsFired      int            `json:"holds_fired"`
	Twins           int            `json:"twins"`
	Faults          map[string]int `json:"faults"`
	Probes          map[string]int `json:"probes"`
	SimNanos        int64          `json:"sim_nanos"`
	InjectedDelayNs int64          `json:"injected_delay_ns"`
}

// Result mirrors simworld.Result plus runner-side fields.
type Result struct {
	ID      int            `json:"id"`
	Prop    string         `json:"prop"`
	Profile string         `json:"profile,omitempty"`
	Seed    int64          `json:"seed"`
	Hash    string         `json:"hash"`
	Canon   string         `json:"canon"`
	Viol    *Violation     `json:"viol,omitempty"`
	Trouble string         `json:"trouble,omitempty"`
	Known   string         `json:"known,omitempty"`
	Stats   Stats          `json:"stats"`
	Tape    map[string]int `json:"tape"`
	TapeLen int            `json:"tape_len"`
	Log     []string       `json:"log,omitempty"`
	NonTriv bool           `json:"nontriv"`
	States  []string       `json:"states,omitempty"`
	Trans   []string       `json:"trans,omitempty"`
	Shape   string         `json:"shape,omitempty"`
	WallUs  int64          `json:"wall_us"`
	MemMB   int            `json:"mem_mb"`
	SigHits map[string]int `json:"sig_hits,omitempty"`
	PUHits  map[string]int `json:"pu_hits,omitempty"`
	Desc    string         `json:"desc,omitempty"`

	// runner side
	Crashed       bool   `json:"crashed,omitempty"`
	CrashText     string `json:"crash_text,omitempty"`
	CrashSite     string `json:"crash_site,omitempty"`
	TimedOut      bool   `json:"timed_out,omitempty"`
	WatchdogRetry bool   `json:"-"` // the first attempt hit the watchdog, this is the result of the second
	job           *Job
}

type worker struct {
	cmd    *exec.Cmd
	stdin  io.WriteCloser
	out    *bufio.Reader
	stderr *bytes.Buffer
	jobs   int
}

type Pool struct {
	bin     string
	n       int
	recycle int
	jobs    chan *Job
	results chan *Result
	wg      sync.WaitGroup
	perJob  time.Duration
	gomax   string
}

func NewPool(bin string, n int) *Pool {
	p := &Pool{bin: bin, n: n, recycle: 300, jobs: make(chan *Job), results: make(chan *Result, 4*n), perJob: 120 * time.Second, gomax: "1"}
	return p
}

func (p *Pool) spawn() (*worker, error) { return p.spawnWith(nil) }

func (p *Pool) spawnWith(extra []string) (*worker, error) {
	cmd := exec.Command(p.bin, "-test.run", "^TestVerifWorker$", "-test.timeout", "0")
	cmd.Env = append(scrubbedEnv(p.gomax), extra...)
	stdin, err := cmd.StdinPipe()
	if err != nil {
		return nil, err
	}
	stdout, err := cmd.StdoutPipe()
	if err != nil {
		return nil, err
	}
	w := &worker{cmd: cmd, stdin: stdin, stderr: &bytes.Buffer{}}
	cmd.Stderr = w.stderr
	w.out = bufio.NewReaderSize(stdout, 1<<20)
	if err := cmd.Start(); err != nil {
		return nil, err
	}
	return w, nil
}

func scrubbedEnv(gomax string) []string {
	env := []string{"VERIF_WORKER=1", "GOMAXPROCS=" + gomax, "PATH=/usr/bin:/bin", "HOME=/nonexistent", "GOTRACEBACK=all", "TMPDIR=" + os.TempDir()}
	if os.Getenv("VERIF_RACE") != "" {
		dir := filepath.Join(os.TempDir(), fmt.Sprintf("verif-race-%d", os.Getpid()))
		os.MkdirAll(dir, 0o755)
		env = append(env, "GORACE=log_path="+filepath.Join(dir, "r")+" halt_on_error=0 exitcode=0 history_size=3", "VERIF_RACE_LOG="+filepath.Join(dir, "r"))
	}
	for _, k := range []string{"VERIF_SCHED_TRACE", "VERIF_DEBUG"} {
		if v := os.Getenv(k); v != "" {
			env = append(env, k+"="+v)
		}
	}
	return env
}

func (w *worker) kill() {
	if w == nil || w.cmd == nil || w.cmd.Process == nil {
		return
	}
	w.cmd.Process.Signal(syscall.SIGKILL)
	w.cmd.Wait()
}

func (w *worker) close() {
	if w == nil {
		return
	}
	w.stdin.Close()
	done := make(chan struct{})
	go func() { w.cmd.Wait(); close(done) }()
	select {
	case <-done:
	case <-time.After(5 * time.Second):
		w.cmd.Process.Signal(syscall.SIGKILL)
		<-done
	}
}

// run executes a job on the worker; on a worker crash res.Crashed is set.
func (p *Pool) runOn(w *worker, job *Job) (*Result, bool) {
	b, _ := json.Marshal(job)
	b = append(b, '\n')
	type rd struct {
		res *Result
		err error
	}
	ch := make(chan rd, 1)
	go func() {
		if _, err := w.stdin.Write(b); err != nil {
			ch <- rd{nil, err}
			return
		}
		for {
			line, err := w.out.ReadString('\n')
			if err != nil {
				ch <- rd{nil, err}
				return
			}
			if strings.HasPrefix(line, "@@R ") {
				var res Result
				if err := json.Unmarshal([]byte(line[4:]), &res); err != nil {
					ch <- rd{nil, fmt.Errorf("bad result: %v", err)}
					return
				}
				ch <- rd{&res, nil}
				return
			}
		}
	}()
	select {
	case x := <-ch:
		if x.err != nil {
			w.cmd.Wait()
			res := &Result{ID: job.ID, Prop: job.Prop, Profile: job.Profile, Seed: job.Seed, Crashed: true, CrashText: w.stderr.String(), job: job}
			res.CrashSite = crashSite(res.CrashText)
			return res, false
		}
		x.res.job = job
		return x.res, true
	case <-time.After(p.perJob):
		w.cmd.Process.Signal(syscall.SIGQUIT)
		time.Sleep(500 * time.Millisecond)
		w.kill()
		res := &Result{ID: job.ID, Prop: job.Prop, Profile: job.Profile, Seed: job.Seed, TimedOut: true, CrashText: w.stderr.String(), job: job}
		return res, false
	}
}

func (p *Pool) Start() {
	for i := 0; i < p.n; i++ {
		p.wg.Add(1)
		go func() {
			defer p.wg.Done()
			var w *worker
			defer func() { w.close() }()
			for job := range p.jobs {
				if w == nil {
					var err error
					w, err = p.spawn()
					if err != nil {
						p.results <- &Result{ID: job.ID, Prop: job.Prop, Seed: job.Seed, Trouble: "spawn: " + err.Error(), job: job}
						continue
					}
				}
				res, alive := p.runOn(w, job)
				if res.TimedOut {
					// a run that normally takes milliseconds did not finish within the real-time limit: once more in a
					// fresh process (runs are deterministic - a stall that does not repeat was the machine's)
					if w2, err := p.spawn(); err == nil {
						res2, alive2 := p.runOn(w2, job)
						if alive2 {
							w2.close()
						}
						if !res2.TimedOut {
							res2.WatchdogRetry = true
							// keep the goroutine dump of the stalled attempt for diagnosis
							os.WriteFile(filepath.Join(os.TempDir(), fmt.Sprintf("verif-watchdog-%s-%d.txt", job.Prop, job.Seed)), []byte(res.CrashText), 0o644)
							res = res2
						}
					}
				}
				w.jobs++
				if !alive {
					w = nil
				} else if w.jobs >= p.recycle || res.MemMB > 1500 {
					// bubbles leave goroutines (and what they hold: payload buffers) behind: a fresh process every so
					// many runs, and at once when it has grown beyond 1.5 GiB
					w.close()
					w = nil
				}
				p.results <- res
			}
		}()
	}
}

func (p *Pool) Stop() {
	close(p.jobs)
	p.wg.Wait()
	close(p.results)
}

// RunOne runs a single job on a fresh worker process. The trace of a run that kills the worker is recovered
// from a log file the worker appends to.
func RunOne(bin string, job *Job, gomax string) *Result {
	p := &Pool{bin: bin, perJob: 180 * time.Second, gomax: gomax}
	var extra []string
	logPath := ""
	if f, err := os.CreateTemp("", "verif-log-"); err == nil {
		logPath = f.Name()
		f.Close()
		defer os.Remove(logPath)
		extra = append(extra, "VERIF_LOG_FILE="+logPath)
	}
	w, err := p.spawnWith(extra)
	if err != nil {
		return &Result{ID: job.ID, Prop: job.Prop, Seed: job.Seed, Trouble: "spawn: " + err.Error(), job: job}
	}
	res, alive := p.runOn(w, job)
	if alive {
		w.close()
	} else if logPath != "" {
		if data, err := os.ReadFile(logPath); err == nil {
			res.Log = strings.Split(strings.TrimRight(string(data), "\n"), "\n")
		}
	}
	return res
}

// crashSite extracts the first emulator frame of the panicking goroutine.
func crashSite(text string) string {
	i := strings.Index(text, "panic:")
	if i < 0 {
		i = strings.Index(text, "fatal error:")
	}
	if i < 0 {
		return ""
	}
	lines := strings.Split(text[i:], "\n")
	// the first goroutine block after the panic line is the panicking one
	inBlock := false
	for _, l := range lines {
		if strings.HasPrefix(l, "goroutine ") {
			if inBlock {
				break
			}
			inBlock = true
			continue
		}
		if !inBlock {
			continue
		}
		if strings.HasPrefix(l, "go.amzn.com/") && !strings.Contains(l, "verifsim/") {
			fn := l
			if k := strings.Index(fn, "("); k > 0 && strings.HasPrefix(fn[k:], "(0x") {
				fn = fn[:k]
			} else if k := strings.LastIndex(fn, "("); k > 0 {
				fn = fn[:k]
			}
			return strings.TrimPrefix(fn, "go.amzn.com/")
		}
	}
	return ""
}

func panicLine(text string) string {
	// logrus prints the message of a Panicf before panicking with the entry
	for _, l := range strings.Split(text, "\n") {
		if strings.Contains(l, "level=panic") {
			if i := strings.Index(l, "msg="); i >= 0 {
				l = l[i:]
			}
			if len(l) > 300 {
				l = l[:300]
			}
			return "panic: " + l
		}
	}
	for _, l := range strings.Split(text, "\n") {
		if strings.HasPrefix(l, "panic:") || strings.HasPrefix(l, "fatal error:") {
			if len(l) > 300 {
				l = l[:300]
			}
			return l
		}
	}
	return ""
}
