package main

import (
	"encoding/json"
	"fmt"
	"os"
	"path/filepath"
	"sort"
	"strconv"
	"strings"
	"sync"
	"time"

	"verif/tool/internal/build"
)

// ReplayFile is the on-disk form of a failing run.
type ReplayFile struct {
	Property  string         `json:"property"`
	Profile   string         `json:"profile,omitempty"`
	Seed      int64          `json:"seed"`
	Tree      string         `json:"tree"`
	Rule      string         `json:"rule"`
	Disc      string         `json:"discriminator"`
	Message   string         `json:"message"`
	Tape      map[string]int `json:"tape"` // sparse: position -> non-zero value; every other choice is 0 (benign default)
	TapeLen   int            `json:"tape_len"`
	Minimised bool           `json:"minimised"`
	OrigTape  int            `json:"original_nonzero_choices"`
	Case      string         `json:"case"`
	Trace     []string       `json:"trace"`
	Crash     string         `json:"crash,omitempty"`
	Knobs     map[string]int `json:"knobs,omitempty"`
}

func sameFailure(ref, got *Result) bool {
	r1, _ := violationKey(ref)
	r2, _ := violationKey(got)
	if r1 == "" || r1 != r2 {
		return false
	}
	if strings.HasSuffix(r1, ".data-race") && ref.Viol != nil && got.Viol != nil && ref.Viol.Msg != got.Viol.Msg {
		return false // another pair of accesses
	}
	if ref.Crashed {
		return got.Crashed && ref.CrashSite == got.CrashSite
	}
	return true
}

func replayJob(ref *Result, tape map[string]int) *Job {
	j := &Job{ID: 1, Prop: ref.Prop, Profile: ref.Profile, Seed: ref.Seed, Replay: tape, IsRep: true, WantLog: true}
	if ref.job != nil {
		j.Knobs = ref.job.Knobs
		j.RaceFiles = ref.job.RaceFiles
	}
	return j
}

// confirmAndMinimise re-executes the failing run from its recorded tape in a
// fresh process, shrinks the tape and writes the replay file.
func confirmAndMinimise(bin, vdir, repo, prop string, fail *Result, known []knownFinding) (string, error) {
	tape := fail.Tape
	if fail.Crashed {
		// a crashed worker could not report its tape: re-run in generation mode with the log prefix recorder
		// (the tape of a generation-mode run is a pure function of the seed, so replay by seed)
		tape = nil
	}
	var ref *Result
	if tape != nil {
		ref = RunOne(bin, replayJob(fail, tape), "1")
		if !sameFailure(fail, ref) {
			return "", fmt.Errorf("violation %q (seed %d) did not reproduce from its recorded tape: got %v crashed=%v", fail.Viol.Rule, fail.Seed, ref.Viol, ref.Crashed)
		}
		ref2 := RunOne(bin, replayJob(fail, tape), "4")
		if !sameFailure(fail, ref2) || ref2.Hash != ref.Hash {
			return "", fmt.Errorf("violation %q (seed %d) is not deterministic across processes (hash %s vs %s)", fail.Viol.Rule, fail.Seed, ref.Hash, ref2.Hash)
		}
	} else {
		// crash: confirm by seed
		j := *fail.job
		again := RunOne(bin, &j, "1")
		if !sameFailure(fail, again) {
			return "", fmt.Errorf("emulator crash at %s (seed %d) did not reproduce in a fresh process", fail.CrashSite, fail.Seed)
		}
		// obtain the tape: ask the worker to dump the tape up to the crash through a tape-recording dry run is impossible,
		// so minimise over the seed-derived tape using the recorder mode (tape file written before each draw)
		t, err := recoverTapeOfCrash(bin, fail)
		if err != nil {
			return "", err
		}
		tape = t
		ref = RunOne(bin, replayJob(fail, tape), "1")
		if !sameFailure(fail, ref) {
			return "", fmt.Errorf("emulator crash at %s (seed %d) did not reproduce from its recovered tape", fail.CrashSite, fail.Seed)
		}
	}
	orig := len(tape)
	best := tape
	bestRes := ref
	deadline := time.Now().Add(90 * time.Second)
	try := func(cands []map[string]int) int {
		// run candidates in parallel, return index of the first (in order) that still fails
		type out struct {
			i   int
			res *Result
		}
		results := make([]*Result, len(cands))
		var wg sync.WaitGroup
		sem := make(chan struct{}, 8)
		for i := range cands {
			wg.Add(1)
			go func(i int) {
				defer wg.Done()
				sem <- struct{}{}
				defer func() { <-sem }()
				results[i] = RunOne(bin, replayJob(fail, cands[i]), "1")
			}(i)
		}
		wg.Wait()
		for i, r := range results {
			if sameFailure(fail, r) {
				bestRes = r
				return i
			}
		}
		return -1
	}
	keysOf := func(m map[string]int) []int {
		var ks []int
		for k := range m {
			n, _ := strconv.Atoi(k)
			ks = append(ks, n)
		}
		sort.Ints(ks)
		return ks
	}
	without := func(m map[string]int, drop map[int]bool) map[string]int {
		o := map[string]int{}
		for k, v := range m {
			n, _ := strconv.Atoi(k)
			if !drop[n] {
				o[k] = v
			}
		}
		return o
	}
	// 1. drop the tail, 2. ddmin on chunks, 3. lower values
	changed := true
	for round := 0; changed && round < 6 && time.Now().Before(deadline); round++ {
		changed = false
		for chunk := (len(best) + 1) / 2; chunk >= 1 && time.Now().Before(deadline); chunk /= 2 {
			ks := keysOf(best)
			var cands []map[string]int
			for lo := 0; lo < len(ks); lo += chunk {
				drop := map[int]bool{}
				for _, k := range ks[lo:minInt(lo+chunk, len(ks))] {
					drop[k] = true
				}
				cands = append(cands, without(best, drop))
			}
			// try from the tail first
			for l, r := 0, len(cands)-1; l < r; l, r = l+1, r-1 {
				cands[l], cands[r] = cands[r], cands[l]
			}
			if len(cands) > 24 {
				cands = cands[:24]
			}
			if i := try(cands); i >= 0 {
				best = cands[i]
				changed = true
				chunk *= 2 // retry same granularity
			}
			if chunk == 1 {
				break
			}
		}
		// lower values
		ks := keysOf(best)
		var cands []map[string]int
		for _, k := range ks {
			v := best[strconv.Itoa(k)]
			if v > 1 {
				c := map[string]int{}
				for kk, vv := range best {
					c[kk] = vv
				}
				c[strconv.Itoa(k)] = 1
				cands = append(cands, c)
			}
		}
		if len(cands) > 24 {
			cands = cands[:24]
		}
		if len(cands) > 0 && time.Now().Before(deadline) {
			if i := try(cands); i >= 0 {
				best = cands[i]
				changed = true
			}
		}
	}
	// final confirmation in a fresh process
	final := RunOne(bin, replayJob(fail, best), "1")
	if !sameFailure(fail, final) {
		best = tape
		final = ref
	}
	_ = bestRes
	rule, disc := violationKey(final)
	rf := &ReplayFile{Property: prop, Profile: fail.Profile, Seed: fail.Seed, Tree: treeFingerprint(repo), Rule: rule, Disc: disc,
		Tape: best, TapeLen: final.TapeLen, Knobs: fail.job.Knobs, Minimised: len(best) < orig, OrigTape: orig, Case: final.Desc, Trace: final.Log}
	if final.Viol != nil {
		rf.Message = final.Viol.Msg
	}
	if final.Crashed {
		rf.Crash = lastN(firstPanic(final.CrashText), 4000)
		rf.Message = panicLine(final.CrashText)
	}
	dir := filepath.Join(vdir, "replays")
	os.MkdirAll(dir, 0o755)
	path := filepath.Join(dir, fmt.Sprintf("%s-seed%d.json", prop, fail.Seed))
	b, _ := json.MarshalIndent(rf, "", " ")
	if err := os.WriteFile(path, b, 0o644); err != nil {
		return "", err
	}
	fmt.Printf("violated rule: %s\n  %s\n  case: %s\n  choices: %d non-default (of %d originally), tape length %d\n", rule, rf.Message, rf.Case, len(best), orig, final.TapeLen)
	for _, l := range tail(final.Log, 25) {
		fmt.Println("   ", l)
	}
	return path, nil
}

func minInt(a, b int) int {
	if a < b {
		return a
	}
	return b
}

// recoverTapeOfCrash re-runs the crashing seed with VERIF_TAPE_FILE set: the
// worker appends every drawn value to that file before using it, so the tape
// survives the death of the process.
func recoverTapeOfCrash(bin string, fail *Result) (map[string]int, error) {
	f, err := os.CreateTemp("", "verif-tape-")
	if err != nil {
		return nil, err
	}
	f.Close()
	defer os.Remove(f.Name())
	p := &Pool{bin: bin, perJob: 180 * time.Second, gomax: "1"}
	os.Setenv("VERIF_TAPE_FILE", f.Name())
	w, err := p.spawnEnv([]string{"VERIF_TAPE_FILE=" + f.Name()})
	os.Unsetenv("VERIF_TAPE_FILE")
	if err != nil {
		return nil, err
	}
	j := *fail.job
	res, alive := p.runOn(w, &j)
	if alive {
		w.close()
	}
	if !sameFailure(fail, res) {
		return nil, fmt.Errorf("crash did not reproduce while recording its tape")
	}
	data, err := os.ReadFile(f.Name())
	if err != nil {
		return nil, err
	}
	tape := map[string]int{}
	for i, tok := range strings.Fields(string(data)) {
		v, _ := strconv.Atoi(tok)
		if v != 0 {
			tape[strconv.Itoa(i)] = v
		}
	}
	return tape, nil
}

func (p *Pool) spawnEnv(extra []string) (*worker, error) {
	w, err := p.spawnWith(extra)
	return w, err
}

func cmdReplay(args []string) int {
	if len(args) < 1 {
		fmt.Fprintln(os.Stderr, "usage: verif replay <file>")
		return 2
	}
	data, err := os.ReadFile(args[0])
	if err != nil {
		fmt.Fprintln(os.Stderr, err)
		return 2
	}
	var rf ReplayFile
	if err := json.Unmarshal(data, &rf); err != nil {
		fmt.Fprintln(os.Stderr, "bad replay file:", err)
		return 2
	}
	isRace := strings.HasSuffix(rf.Rule, ".data-race")
	if isRace {
		os.Setenv("VERIF_RACE", "1") // found by the race pass: replayed on a worker with the race detector
	}
	b, err := build.Build(repoDir(), filepath.Join(verifDir(), "sim"))
	if b != nil {
		defer os.RemoveAll(b.Scratch)
	}
	if err != nil {
		fmt.Fprintln(os.Stderr, "BUILD TROUBLE:", err)
		return 2
	}
	job := &Job{ID: 1, Prop: rf.Property, Profile: rf.Profile, Seed: rf.Seed, Replay: rf.Tape, IsRep: true, WantLog: true, Knobs: rf.Knobs}
	if isRace {
		job.RaceFiles = anchorFiles(verifDir(), rf.Property)
		if sp := specs[rf.Property]; sp != nil && len(sp.RaceFiles) > 0 {
			job.RaceFiles = sp.RaceFiles
		}
	}
	res := RunOne(b.Worker, job, "1")
	for _, l := range res.Log {
		fmt.Println(l)
	}
	if res.Crashed {
		fmt.Println(lastN(firstPanic(res.CrashText), 1800))
	}
	rule, disc := violationKey(res)
	if res.Trouble != "" {
		fmt.Println("HARNESS TROUBLE:", res.Trouble)
		return 2
	}
	if rule == "" {
		fmt.Printf("replay of %s: no violation on this tree (recorded: %s)\n", args[0], rf.Rule)
		return 0
	}
	fmt.Printf("reproduced: rule=%s %s\n", rule, disc)
	if rule == rf.Rule {
		fmt.Printf("VIOLATION property=%s replay=%s\n", rf.Property, args[0])
		return 1
	}
	fmt.Printf("VIOLATION property=%s replay=%s (different rule than recorded: %s)\n", rf.Property, args[0], rf.Rule)
	return 1
}
