package main

import (
	"bufio"
	"crypto/sha256"
	"encoding/hex"
	"encoding/json"
	"fmt"
	"os"
	"os/exec"
	"path/filepath"
	"regexp"
	"runtime"
	"sort"
	"strconv"
	"strings"
	"time"

	"verif/tool/internal/build"
)

// PropSpec is the per-property budget and description table.
type PropSpec struct {
	ID        string
	Level     string
	QuickRuns int
	QuickSecs int // wall budget for the run phase
	ThorRuns  int
	ThorSecs  int
	// race pass (optional): runs on a worker built with the race detector, after the main pass
	RaceQuick, RaceThor int
	// unlock-yield pass (optional, DESIGN 11.17): the same scenarios with a scheduling point after every release of a lock
	UYQuick, UYThor int
	// RaceFiles, when set, narrows the race pass to a subset of the property's anchored files (DESIGN 11.12 says why)
	RaceFiles []string
	Rule      string
	Assume    []string
	Profiles  []string // profiles cycled over jobs ("" = scenario decides from the tape)
	Cells     int      // >0: enumerated matrix; job i gets knob cell = i % Cells
	Real      string   // components running real code (default: the full-stack list)
	Stub      string
}

var commonAssume = []string{
	"child processes, the kernel and TCP are simulated (fake ProcessSupervisor, in-memory listener); clocks are the synctest bubble clock",
	"sync.Mutex/RWMutex/Once of the emulator are replaced by scheduler-owned equivalents at build time (overlay), metering.Monotime reads bubble time",
	"interleavings are decided at external stimuli and at every lock acquisition (in the unlock-yield pass of C05, C07, C08 and C10 at every release too); preemption between two statements with neither in between is not explored",
	"a clean batch is evidence over the sampled tapes, not proof",
}

var specs = map[string]*PropSpec{}

func reg(s *PropSpec) {
	if s.Assume == nil {
		s.Assume = commonAssume
	}
	specs[s.ID] = s
}

type knownFinding struct {
	Kind     string `json:"kind"` // known | fixed
	Property string `json:"property"`
	Rule     string `json:"rule"`
	Match    string `json:"match"` // substring of crash site / violation message / known tag
	What     string `json:"what"`
	Commit   string `json:"commit,omitempty"`
}

func loadKnown(dir string) []knownFinding {
	var out []knownFinding
	f, err := os.Open(filepath.Join(dir, "known_findings.jsonl"))
	if err != nil {
		return nil
	}
	defer f.Close()
	sc := bufio.NewScanner(f)
	for sc.Scan() {
		l := strings.TrimSpace(sc.Text())
		if l == "" || strings.HasPrefix(l, "#") {
			continue
		}
		var k knownFinding
		if json.Unmarshal([]byte(l), &k) == nil {
			out = append(out, k)
		}
	}
	return out
}

// violationKey identifies a failure class: rule plus discriminator.
func violationKey(res *Result) (rule, disc string) {
	if res.Crashed {
		return res.Prop + ".crash", res.CrashSite + " | " + panicLine(res.CrashText)
	}
	if res.Viol != nil {
		return res.Viol.Rule, res.Viol.Msg
	}
	return "", ""
}

func matchKnown(known []knownFinding, prop string, res *Result) *knownFinding {
	rule, disc := violationKey(res)
	for i := range known {
		k := &known[i]
		if k.Kind != "known" || k.Property != prop {
			continue
		}
		if k.Rule != "" && k.Rule != rule {
			continue
		}
		if k.Match != "" && !strings.Contains(disc, k.Match) && !strings.Contains(res.Known, k.Match) {
			continue
		}
		return k
	}
	return nil
}

func envInt(name string, def int64) int64 {
	if v := os.Getenv(name); v != "" {
		if n, err := strconv.ParseInt(v, 10, 64); err == nil {
			return n
		}
	}
	return def
}

func treeFingerprint(repo string) string {
	out, _ := exec.Command("git", "-C", repo, "rev-parse", "HEAD").Output()
	diff, _ := exec.Command("git", "-C", repo, "diff", "HEAD").Output()
	h := sha256.Sum256(diff)
	return strings.TrimSpace(string(out)) + "+" + hex.EncodeToString(h[:4])
}

type agg struct {
	raceRuns, raceIgnored int
	uyRuns                int
	watchdogRetries       int
	runs, nontriv         int
	hashes                map[string]struct{}
	ntHashes              map[string]struct{}
	shapes                map[string]struct{}
	states                map[string]struct{}
	trans                 map[string]struct{}
	faults                map[string]int
	probes                map[string]int
	simNanos              int64
	extSteps, schSteps    int64
	choice, nonNat        int64
	holds, twins          int64
	injDelay              int64
	reexec                int
	sigSites              map[string]struct{}
	samples               []map[string]interface{}
	knownHits             map[string]int
	crashes               int
	profiles              map[string]int
}

func newAgg() *agg {
	return &agg{hashes: map[string]struct{}{}, ntHashes: map[string]struct{}{}, shapes: map[string]struct{}{}, states: map[string]struct{}{},
		trans: map[string]struct{}{}, faults: map[string]int{}, probes: map[string]int{}, sigSites: map[string]struct{}{}, knownHits: map[string]int{}, profiles: map[string]int{}}
}

func (a *agg) add(res *Result) {
	a.runs++
	a.profiles[res.Profile]++
	if res.Crashed {
		a.crashes++
		return
	}
	a.hashes[res.Canon] = struct{}{}
	if res.NonTriv {
		a.nontriv++
		a.ntHashes[res.Canon] = struct{}{}
	}
	a.shapes[res.Shape] = struct{}{}
	for _, s := range res.States {
		a.states[s] = struct{}{}
	}
	for _, s := range res.Trans {
		a.trans[s] = struct{}{}
	}
	for k, v := range res.Stats.Faults {
		a.faults[k] += v
	}
	for k, v := range res.Stats.Probes {
		a.probes[k] += v
	}
	a.simNanos += res.Stats.SimNanos
	a.extSteps += int64(res.Stats.ExternalSteps)
	a.schSteps += int64(res.Stats.SchedSteps)
	a.choice += int64(res.Stats.StepsWithChoice)
	a.nonNat += int64(res.Stats.NonNatural)
	a.holds += int64(res.Stats.HoldsFired)
	a.twins += int64(res.Stats.Twins)
	a.injDelay += res.Stats.InjectedDelayNs
	for s := range res.SigHits {
		a.sigSites[s] = struct{}{}
	}
	if len(res.Log) > 0 && len(a.samples) < 3 && res.Viol == nil && res.Trouble == "" {
		lg := res.Log
		if len(lg) > 60 {
			lg = append(append([]string{}, lg[:45]...), fmt.Sprintf("... (%d more lines)", len(res.Log)-45))
		}
		a.samples = append(a.samples, map[string]interface{}{"seed": res.Seed, "profile": res.Profile, "case": res.Desc, "tape_len": res.TapeLen, "trace": lg})
	}
}

func cmdCheck(args []string) int {
	if len(args) < 1 {
		fmt.Fprintln(os.Stderr, "usage: verif check <id> [--tier quick|thorough] [--runs N] [--secs N]")
		return 2
	}
	id := args[0]
	tier := os.Getenv("VERIF_TIER")
	if tier == "" {
		tier = "quick"
	}
	runsOverride, secsOverride := 0, 0
	collect := false
	racePass := false
	uyPass := false
	classes := map[string][]int64{}
	for i := 1; i < len(args); i++ {
		switch args[i] {
		case "--tier":
			i++
			tier = args[i]
		case "--runs":
			i++
			runsOverride, _ = strconv.Atoi(args[i])
		case "--secs":
			i++
			secsOverride, _ = strconv.Atoi(args[i])
		case "--collect":
			collect = true
		case "--race":
			racePass = true
		case "--uyield":
			uyPass = true
		}
	}
	spec := specs[id]
	if spec == nil {
		fmt.Fprintln(os.Stderr, "unknown property", id)
		return 2
	}
	start := time.Now()
	seed := envInt("VERIF_SEED", 1)
	vdir := verifDir()
	repo := repoDir()
	if racePass {
		// the race pass: the same scenarios on a worker built with the race detector (see DESIGN 11.12)
		if spec.RaceQuick == 0 && runsOverride == 0 {
			fmt.Fprintln(os.Stderr, "no race pass is defined for", id)
			return 2
		}
		os.Setenv("VERIF_RACE", "1")
		seed += 7000 // other cases than the main pass
	}
	if uyPass {
		// the unlock-yield pass: the same scenarios with a scheduling point after every release (see DESIGN 11.17)
		if spec.UYQuick == 0 && runsOverride == 0 {
			fmt.Fprintln(os.Stderr, "no unlock-yield pass is defined for", id)
			return 2
		}
		seed += 9000 // other cases than the main pass
	}
	b, err := build.Build(repo, filepath.Join(vdir, "sim"))
	if b != nil {
		defer os.RemoveAll(b.Scratch)
	}
	if err != nil {
		fmt.Fprintln(os.Stderr, "BUILD TROUBLE:", err)
		return 2
	}
	buildSecs := time.Since(start).Seconds()
	known := loadKnown(vdir)

	runs, secs := spec.QuickRuns, spec.QuickSecs
	if tier == "thorough" {
		runs, secs = spec.ThorRuns, spec.ThorSecs
	}
	if racePass {
		runs = spec.RaceQuick
		if tier == "thorough" {
			runs = spec.RaceThor
		}
	}
	if uyPass {
		runs = spec.UYQuick
		if tier == "thorough" {
			runs = spec.UYThor
		}
	}
	if runsOverride > 0 {
		runs = runsOverride
	}
	if secsOverride > 0 {
		secs = secsOverride
	}
	nw := runtime.NumCPU()
	if v := envInt("VERIF_WORKERS", 0); v > 0 {
		nw = int(v)
	}
	pool := NewPool(b.Worker, nw)
	pool.Start()
	profiles := spec.Profiles
	if len(profiles) == 0 {
		profiles = []string{""}
	}
	deadline := time.Now().Add(time.Duration(secs) * time.Second)
	stop := make(chan struct{})
	jobByID := map[int]*Job{}
	go func() {
		defer pool.Stop()
		for i := 0; i < runs; i++ {
			if time.Now().After(deadline) {
				return
			}
			j := &Job{ID: i + 1, Prop: id, Profile: profiles[i%len(profiles)], Seed: seed*1000003 + int64(i), Tier: tier, WantLog: i < 3*len(profiles)}
			if racePass {
				j.RaceFiles = anchorFiles(vdir, id)
				if len(spec.RaceFiles) > 0 {
					j.RaceFiles = spec.RaceFiles
				}
			}
			if spec.Cells > 0 {
				j.Knobs = map[string]int{"cell": i % spec.Cells}
			}
			if dk := os.Getenv("VERIF_KNOBS"); dk != "" {
				// debugging aid: extra knobs for every job, e.g. VERIF_KNOBS=holdsite=161
				if j.Knobs == nil {
					j.Knobs = map[string]int{}
				}
				for _, kv := range strings.Split(dk, ",") {
					if i := strings.Index(kv, "="); i > 0 {
						v, _ := strconv.Atoi(kv[i+1:])
						j.Knobs[kv[:i]] = v
					}
				}
			}
			if uyPass {
				if j.Knobs == nil {
					j.Knobs = map[string]int{}
				}
				j.Knobs["uyield"] = 1
			}
			select {
			case pool.jobs <- j:
			case <-stop:
				return
			}
		}
	}()
	_ = jobByID

	a := newAgg()
	var failure *Result
	var trouble string
	var recheck []*Result
	for res := range pool.results {
		if res.Trouble != "" && trouble == "" {
			trouble = fmt.Sprintf("seed %d: %s\n%s", res.Seed, res.Trouble, strings.Join(tail(res.Log, 40), "\n"))
			continue
		}
		if res.WatchdogRetry {
			a.watchdogRetries++
			fmt.Fprintf(os.Stderr, "note: seed %d hit the real-time watchdog once and completed normally when repeated in a fresh process\n", res.Seed)
		}
		if res.TimedOut && trouble == "" {
			trouble = fmt.Sprintf("seed %d: watchdog: run exceeded the real-time limit\n%s", res.Seed, lastN(res.CrashText, 6000))
			continue
		}
		if res.Crashed && res.CrashSite == "" && trouble == "" {
			trouble = fmt.Sprintf("seed %d: worker died outside emulator code:\n%s", res.Seed, lastN(firstPanic(res.CrashText), 6000))
			continue
		}
		a.add(res)
		if res.Crashed || res.Viol != nil {
			if k := matchKnown(known, id, res); k != nil {
				a.knownHits[k.Rule+" "+k.Match]++
				continue
			}
			if collect {
				rule, disc := violationKey(res)
				if len(disc) > 90 {
					disc = disc[:90]
				}
				k := rule + " | known=" + res.Known + " | " + res.Desc
				if len(k) > 260 {
					k = k[:260]
				}
				_ = disc
				ck := rule + " | known=" + res.Known
				if strings.HasSuffix(rule, ".data-race") {
					ck += " | " + res.Viol.Msg
				}
				classes[ck] = append(classes[ck], res.Seed)
				continue
			}
			if failure == nil {
				failure = res
				select {
				case <-stop:
				default:
					close(stop)
				}
			}
			continue
		}
		if res.ID%40 == 7 && len(recheck) < 12 {
			recheck = append(recheck, res)
		}
	}
	runSecs := time.Since(start).Seconds() - buildSecs

	if trouble != "" {
		fmt.Fprintln(os.Stderr, "HARNESS TROUBLE:", trouble)
		return 2
	}
	// determinism re-executions: same job, fresh process, other GOMAXPROCS
	if failure == nil {
		for i, res := range recheck {
			gm := []string{"1", "4", "16"}[i%3]
			j := *res.job
			j.WantLog = true
			again := RunOne(b.Worker, &j, gm)
			a.reexec++
			if again.Crashed || again.Hash != res.Hash {
				fmt.Fprintf(os.Stderr, "DETERMINISM TROUBLE: seed %d profile %q: hash %s vs %s (GOMAXPROCS=%s)\n", res.Seed, res.Profile, res.Hash, again.Hash, gm)
				first := RunOne(b.Worker, &j, "1")
				dumpDiff(first.Log, again.Log)
				return 2
			}
		}
	}

	if collect {
		var keys []string
		for k := range classes {
			keys = append(keys, k)
		}
		sort.Strings(keys)
		for _, k := range keys {
			seeds := classes[k]
			n := len(seeds)
			if len(seeds) > 4 {
				seeds = seeds[:4]
			}
			fmt.Printf("CLASS %6d  %s  seeds=%v\n", n, k, seeds)
		}
	}
	violations := 0
	exit := 0
	var replayPath string
	if failure != nil {
		violations = 1
		replayPath, err = confirmAndMinimise(b.Worker, vdir, repo, id, failure, known)
		if err != nil {
			fmt.Fprintln(os.Stderr, "HARNESS TROUBLE:", err)
			return 2
		}
		exit = 1
	}
	for _, kf := range known {
		if kf.Kind == "known" && kf.Property == id {
			fmt.Printf("KNOWN-FINDING: property=%s %s (rule %s; hit %d times in this run)\n", id, kf.What, kf.Rule, a.knownHits[kf.Rule+" "+kf.Match])
		}
	}
	if racePass {
		// sub-pass: summary on stdout for the parent, no evidence file of its own
		if exit == 1 {
			fmt.Printf("VIOLATION property=%s replay=%s\n", id, replayPath)
		} else {
			fmt.Printf("RACEPASS property=%s runs=%d harness_reports_ignored=%d wall=%.1fs\n", id, a.runs, a.probes["race-report-in-harness-code-ignored"], time.Since(start).Seconds())
		}
		return exit
	}
	if uyPass {
		// sub-pass: summary on stdout for the parent, no evidence file of its own
		if exit == 1 {
			fmt.Printf("VIOLATION property=%s replay=%s\n", id, replayPath)
		} else {
			fmt.Printf("UYPASS property=%s runs=%d wall=%.1fs\n", id, a.runs, time.Since(start).Seconds())
		}
		return exit
	}
	if exit == 0 && spec.UYQuick > 0 && !collect && runsOverride == 0 {
		self, _ := os.Executable()
		cmd := exec.Command(self, "check", id, "--tier", tier, "--uyield")
		cmd.Env = os.Environ()
		out, rerr := cmd.CombinedOutput()
		rc := 0
		if rerr != nil {
			rc = 2
			if ee, ok := rerr.(*exec.ExitError); ok {
				rc = ee.ExitCode()
			}
		}
		switch rc {
		case 0:
			if m := regexp.MustCompile(`UYPASS property=\S+ runs=(\d+) wall=([0-9.]+)s`).FindStringSubmatch(string(out)); m != nil {
				a.uyRuns, _ = strconv.Atoi(m[1])
			} else {
				fmt.Fprintln(os.Stderr, "HARNESS TROUBLE: unlock-yield pass gave no summary:\n"+lastN(string(out), 3000))
				return 2
			}
		case 1:
			os.Stdout.Write(out)
			writeEvidence(vdir, spec, tier, seed, a, time.Since(start).Seconds(), buildSecs, runSecs, 1, nw, treeFingerprint(repo))
			return 1
		default:
			fmt.Fprintln(os.Stderr, "HARNESS TROUBLE: unlock-yield pass failed:\n"+lastN(string(out), 3000))
			return 2
		}
	}
	if exit == 0 && spec.RaceQuick > 0 && !collect && runsOverride == 0 {
		self, _ := os.Executable()
		cmd := exec.Command(self, "check", id, "--tier", tier, "--race")
		cmd.Env = os.Environ()
		out, rerr := cmd.CombinedOutput()
		rc := 0
		if rerr != nil {
			rc = 2
			if ee, ok := rerr.(*exec.ExitError); ok {
				rc = ee.ExitCode()
			}
		}
		switch rc {
		case 0:
			if m := regexp.MustCompile(`RACEPASS property=\S+ runs=(\d+) harness_reports_ignored=(\d+) wall=([0-9.]+)s`).FindStringSubmatch(string(out)); m != nil {
				n, _ := strconv.Atoi(m[1])
				ig, _ := strconv.Atoi(m[2])
				a.raceRuns, a.raceIgnored = n, ig
			} else {
				fmt.Fprintln(os.Stderr, "HARNESS TROUBLE: race pass gave no summary:\n"+lastN(string(out), 3000))
				return 2
			}
		case 1:
			os.Stdout.Write(out)
			writeEvidence(vdir, spec, tier, seed, a, time.Since(start).Seconds(), buildSecs, runSecs, 1, nw, treeFingerprint(repo))
			return 1
		default:
			fmt.Fprintln(os.Stderr, "HARNESS TROUBLE: race pass failed:\n"+lastN(string(out), 3000))
			return 2
		}
	}
	writeEvidence(vdir, spec, tier, seed, a, time.Since(start).Seconds(), buildSecs, runSecs, violations, nw, treeFingerprint(repo))
	if exit == 1 {
		fmt.Printf("VIOLATION property=%s replay=%s\n", id, replayPath)
	} else {
		fmt.Printf("OK property=%s tier=%s runs=%d distinct_nontrivial=%d wall=%.1fs\n", id, tier, a.runs, len(a.ntHashes), time.Since(start).Seconds())
	}
	return exit
}

func tail(s []string, n int) []string {
	if len(s) > n {
		return s[len(s)-n:]
	}
	return s
}

func lastN(s string, n int) string {
	if len(s) > n {
		return s[:n]
	}
	return s
}

func firstPanic(text string) string {
	i := strings.Index(text, "panic:")
	if i < 0 {
		i = strings.Index(text, "fatal error:")
	}
	if i < 0 {
		return text
	}
	return text[i:]
}

func dumpDiff(a, b []string) {
	n := len(a)
	if len(b) < n {
		n = len(b)
	}
	for i := 0; i < n; i++ {
		if a[i] != b[i] {
			lo := i - 5
			if lo < 0 {
				lo = 0
			}
			for k := lo; k < i; k++ {
				fmt.Fprintln(os.Stderr, "   ", a[k])
			}
			fmt.Fprintln(os.Stderr, " A:", a[i])
			fmt.Fprintln(os.Stderr, " B:", b[i])
			return
		}
	}
	fmt.Fprintf(os.Stderr, " logs differ in length: %d vs %d\n", len(a), len(b))
}

func writeEvidence(vdir string, spec *PropSpec, tier string, seed int64, a *agg, wall, buildSecs, runSecs float64, violations, workers int, tree string) {
	// evidence describes a run against /repo itself; runs against a scratch tree (sensitivity tests with
	// VERIF_REPO) write theirs elsewhere so that the committed files are never overwritten by them
	evDir := filepath.Join(vdir, "evidence")
	if d := os.Getenv("VERIF_EVIDENCE_DIR"); d != "" {
		evDir = d
	} else if r := os.Getenv("VERIF_REPO"); r != "" && r != "/repo" {
		evDir = filepath.Join(os.TempDir(), "verif-scratch-evidence")
	}
	os.MkdirAll(evDir, 0o755)
	racePassNote := "none for this property (DESIGN 11.12)"
	if spec.RaceQuick > 0 {
		scope := "the files the property is anchored in"
		if len(spec.RaceFiles) > 0 {
			scope = strings.Join(spec.RaceFiles, ", ")
		}
		racePassNote = "after the main pass the same seeded scenarios ran on a worker built with the race detector (the simulator's own synchronisation hidden from it, the edges of the simulated locks declared); a data race between two accesses of emulator code that both lie in " + scope + " is a violation"
	}
	uyNote := "none for this property (DESIGN 11.17)"
	if spec.UYQuick > 0 {
		uyNote = "after the main pass the same seeded scenarios (other seeds) ran with one more kind of scheduling point: the goroutine that releases a lock parks right after the release and goes on when the driver picks it, so the statements that follow an unlock can be separated from the critical section and held there like at any lock site"
	}
	cov := map[string]interface{}{
		"race_pass":                   racePassNote,
		"scheduling_points":           "lock acquisitions, goroutine starts (yield after every go statement), entry of every Cond.Wait; lock-grant order and holds decided by the tape",
		"evaluations":                 a.runs,
		"distinct_nontrivial":         len(a.ntHashes),
		"rule":                        spec.Rule,
		"samples":                     a.samples,
		"nontrivial_runs":             a.nontriv,
		"distinct_logs":               len(a.hashes),
		"distinct_trace_shapes":       len(a.shapes),
		"abstract_states":             len(a.states),
		"abstract_transitions":        len(a.trans),
		"seeds":                       fmt.Sprintf("%d*1000003 + [0,%d)", seed, a.runs),
		"runs_per_hour":               int(float64(a.runs) / maxf(runSecs, 0.001) * 3600),
		"simulated_seconds":           float64(a.simNanos) / 1e9,
		"external_steps":              a.extSteps,
		"scheduling_steps":            a.schSteps,
		"steps_with_choice":           a.choice,
		"non_natural_choices":         a.nonNat,
		"holds":                       a.holds,
		"twin_orderings":              a.twins,
		"injected_scheduling_delay_s": float64(a.injDelay) / 1e9,
		"faults_fired":                a.faults,
		"probes":                      a.probes,
		"lock_sites_seen":             len(a.sigSites),
		"determinism_reexecutions":    a.reexec,
		"known_findings_hit":          a.knownHits,
		"emulator_crashes":            a.crashes,
		"watchdog_retries":            a.watchdogRetries,
		"race_pass_runs":              a.raceRuns,
		"unlock_yield_pass":           uyNote,
		"unlock_yield_pass_runs":      a.uyRuns,
		"race_pass_reports_in_harness_code_ignored": a.raceIgnored,
		"profiles": a.profiles,
		"workers":  workers,
		"build_s":  buildSecs,
		"tree":     tree,
		"real_vs_stub": map[string]string{
			"real": "lambda/rapidcore, lambda/rapid, lambda/rapi (server, routers, middleware, handlers, rendering), lambda/core, appctx, fatalerror, interop, agents, extensions, telemetry no-op tracer, metering except Monotime, cmd/aws-lambda-rie handlers/bootstrap/util, net/http server, chi, uuid, logrus",
			"stub": "child processes and kernel (fake ProcessSupervisor), TCP (in-memory conns), clocks (bubble), main()/flags/startHTTPServer, sync.Mutex/RWMutex/Once (scheduler-owned), HTTP clients of runtime/extensions/callers (hand-written HTTP/1.1 client)",
		},
	}
	if spec.Real != "" {
		cov["real_vs_stub"] = map[string]string{"real": spec.Real, "stub": spec.Stub}
	}
	ev := map[string]interface{}{
		"property_id": spec.ID,
		"tier":        tier,
		"seed":        seed,
		"level":       spec.Level,
		"coverage":    cov,
		"assumptions": spec.Assume,
		"wall_s":      wall,
		"violations":  violations,
	}
	b, _ := json.MarshalIndent(ev, "", " ")
	os.WriteFile(filepath.Join(evDir, spec.ID+".json"), b, 0o644)
}

func maxf(a, b float64) float64 {
	if a > b {
		return a
	}
	return b
}

func sortedKeys(m map[string]struct{}) []string {
	var k []string
	for x := range m {
		k = append(k, x)
	}
	sort.Strings(k)
	return k
}

// anchorFiles returns the files the property is anchored in (properties.jsonl): the race pass only counts a data
// race between two accesses that both lie in them.
func anchorFiles(vdir, id string) []string {
	f, err := os.Open(filepath.Join(vdir, "properties.jsonl"))
	if err != nil {
		return nil
	}
	defer f.Close()
	sc := bufio.NewScanner(f)
	sc.Buffer(make([]byte, 1<<20), 16<<20)
	for sc.Scan() {
		var p struct {
			ID      string `json:"id"`
			Anchors struct {
				Files []string `json:"files"`
			} `json:"anchors"`
		}
		if json.Unmarshal(sc.Bytes(), &p) == nil && p.ID == id {
			return p.Anchors.Files
		}
	}
	return nil
}
