package main

func init() {
	reg(&PropSpec{ID: "C04", Level: "exploration", QuickRuns: 6000, QuickSecs: 45, ThorRuns: 2000000, ThorSecs: 1500,
		Rule: "per run: 0-3 external + 0-2 internal extensions with drawn subscription sets, 2-6 consecutive invocations with/without trace header, tape-ordered returns of runtime and extensions, one party stalled (ms .. 200 s), lock-grant reordering 0/25/50%; non-trivial = at least one INVOKE subscriber existed and the completion barrier was compared against its return to next; distinct = distinct canonical log hash"})
	reg(&PropSpec{ID: "C03", Level: "exploration", QuickRuns: 8000, QuickSecs: 45, ThorRuns: 2000000, ThorSecs: 1500,
		Rule: "per run: fixture directory with 0-3 executables plus 0-2 directories (with nested files), 0-2 internal extensions, drawn subscription sets, tape order of register/next calls of all parties (50-90% non-default order), one party stalled before register or before its first poll (ms .. 280 s), optional late-registering internal extension, first caller arrives first; non-trivial = every party arrived and the delivery-at-quiescence obligation was evaluated; distinct = distinct canonical log hash"})
	reg(&PropSpec{ID: "C06", Level: "fault_enumeration", Cells: 162, QuickRuns: 162 * 12, QuickSecs: 60, ThorRuns: 162 * 4000, ThorSecs: 1500,
		Rule: "enumerated matrix: 0-2 extensions x faulty party (runtime / each extension) x protocol point (runtime: before first poll, after init/error, after poll, after response, idle, inline re-init; extension: before register, after register, after first event, after init/error, after exit/error, failed launch) x exit kind (0, n>0, signal / EACCES, ENOENT, other); every cell is executed with many tape-drawn schedules (who polls when, event delivery order, lock-grant reordering); 4 invocations per run (victim, recovery, two more); non-trivial = a fault hit an invocation and the failure table was applied; distinct = distinct canonical log hash"})
}
