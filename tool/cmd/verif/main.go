package main

import (
	"encoding/json"
	"fmt"
	"os"
	"path/filepath"
	"strings"

	"verif/tool/internal/build"
)

func repoDir() string {
	if d := os.Getenv("VERIF_REPO"); d != "" {
		return d
	}
	return "/repo"
}

func verifDir() string {
	if d := os.Getenv("VERIF_DIR"); d != "" {
		return d
	}
	exe, err := os.Executable()
	if err == nil {
		return filepath.Dir(filepath.Dir(exe))
	}
	return "/verif"
}

func main() {
	if len(os.Args) < 2 {
		fmt.Fprintln(os.Stderr, "usage: verif check <id> [--tier quick|thorough] | replay <file> | job <prop> <seed> | selftest")
		os.Exit(2)
	}
	switch os.Args[1] {
	case "job":
		os.Exit(cleanRaceLogs(cmdJob(os.Args[2:])))
	case "check":
		os.Exit(cleanRaceLogs(cmdCheck(os.Args[2:])))
	case "replay":
		os.Exit(cleanRaceLogs(cmdReplay(os.Args[2:])))
	case "warm":
		b, err := build.Build(repoDir(), filepath.Join(verifDir(), "sim"))
		if b != nil {
			os.RemoveAll(b.Scratch)
		}
		if err != nil {
			fmt.Fprintln(os.Stderr, "BUILD TROUBLE:", err)
			os.Exit(2)
		}
		fmt.Println("warm: worker builds")
		os.Setenv("VERIF_RACE", "1")
		b, err = build.Build(repoDir(), filepath.Join(verifDir(), "sim"))
		if b != nil {
			os.RemoveAll(b.Scratch)
		}
		if err != nil {
			fmt.Fprintln(os.Stderr, "BUILD TROUBLE (race build):", err)
			os.Exit(2)
		}
		fmt.Println("warm: race-pass worker builds")
		os.Exit(0)
	case "selftest":
		os.Exit(cmdSelftest(os.Args[2:]))
	default:
		fmt.Fprintln(os.Stderr, "unknown command", os.Args[1])
		os.Exit(2)
	}
}

// cmdJob: debugging aid - run one job and print its log.
func cmdJob(args []string) int {
	if len(args) < 2 {
		fmt.Fprintln(os.Stderr, "usage: verif job <prop[/profile]> <seed>")
		return 2
	}
	b, err := build.Build(repoDir(), filepath.Join(verifDir(), "sim"))
	if b != nil {
		defer os.RemoveAll(b.Scratch)
	}
	if err != nil {
		fmt.Fprintln(os.Stderr, "BUILD TROUBLE:", err)
		return 2
	}
	prop, profile := args[0], ""
	if i := strings.Index(prop, "/"); i >= 0 {
		prop, profile = prop[:i], prop[i+1:]
	}
	var seed int64
	fmt.Sscanf(args[1], "%d", &seed)
	job := map[string]interface{}{"id": 1, "prop": prop, "profile": profile, "seed": seed, "want_log": true}
	knobs := map[string]int{}
	for _, a := range args[2:] {
		if i := strings.Index(a, "="); i > 0 {
			var v int
			fmt.Sscanf(a[i+1:], "%d", &v)
			knobs[a[:i]] = v
		}
	}
	if len(knobs) > 0 {
		job["knobs"] = knobs
	}
	jb, _ := json.Marshal(job)
	var j Job
	json.Unmarshal(jb, &j)
	if gm := os.Getenv("VERIF_GOMAXPROCS"); gm != "" {
		_ = gm
	}
	gm := os.Getenv("VERIF_GOMAXPROCS")
	if gm == "" {
		gm = "1"
	}
	res := RunOne(b.Worker, &j, gm)
	for _, l := range res.Log {
		fmt.Println(l)
	}
	if res.Crashed {
		fmt.Println(panicLine(res.CrashText))
		fmt.Println(lastN(firstPanic(res.CrashText), 2500))
	}
	res.Log = nil
	res.CrashText = ""
	pb, _ := json.MarshalIndent(res, "", " ")
	fmt.Println(string(pb))
	return 0
}

// cleanRaceLogs removes the directory the race detector of this process's workers logged into (race pass only).
func cleanRaceLogs(rc int) int {
	os.RemoveAll(filepath.Join(os.TempDir(), fmt.Sprintf("verif-race-%d", os.Getpid())))
	return rc
}
