// Package build produces the simulation worker binary from the current working
// tree of the repository: AST-transformed copies of the emulator sources plus
// the harness packages are injected through a -overlay; the repository itself
// is never written.
package build

import (
	"bytes"
	"encoding/json"
	"fmt"
	"go/ast"
	"go/format"
	"go/parser"
	"go/token"
	"os"
	"os/exec"
	"path/filepath"
	"strconv"
	"strings"
)

// Result describes a finished build.
type Result struct {
	Scratch   string // scratch directory (remove when done)
	Worker    string // path of the worker test binary
	Files     int    // number of transformed emulator files
	MapRanges int    // files in which map iterations were made deterministic
}

type importSub struct {
	from, to, name string
}

// Trouble is a build/transform failure (exit 2, never a violation).
type Trouble struct{ Msg string }

func (t *Trouble) Error() string { return t.Msg }

func troublef(f string, a ...interface{}) error { return &Trouble{fmt.Sprintf(f, a...)} }

const modPath = "go.amzn.com"

// Build transforms repo and compiles the worker. simDir is /verif/sim.
func Build(repo, simDir string) (*Result, error) {
	scratch, err := os.MkdirTemp("", "verifsim-build-")
	if err != nil {
		return nil, troublef("mkdtemp: %v", err)
	}
	res := &Result{Scratch: scratch, Worker: filepath.Join(scratch, "worker.test")}
	overlay := map[string]string{}

	// 0. go.mod copy with the newer language version (GODEBUG defaults, synctest)
	if err := writeModfile(repo, scratch); err != nil {
		return res, err
	}
	mapRanges, err := findMapRanges(repo, filepath.Join(scratch, "go.mod"))
	if err != nil {
		return res, troublef("map-range analysis: %v", err)
	}

	// 1. transformed emulator sources
	seenSync, seenNet, seenMono, seenSupv := 0, false, false, false
	haveKernel := false
	if st, err := os.Stat(filepath.Join(simDir, "simkernel")); err == nil && st.IsDir() {
		haveKernel = true
	}
	err = filepath.Walk(repo, func(p string, info os.FileInfo, err error) error {
		if err != nil {
			return err
		}
		rel, _ := filepath.Rel(repo, p)
		if info.IsDir() {
			if rel == ".git" || rel == "verifsim" || strings.HasPrefix(info.Name(), ".") && rel != "." {
				return filepath.SkipDir
			}
			return nil
		}
		if !strings.HasSuffix(p, ".go") || strings.HasSuffix(p, "_test.go") {
			return nil
		}
		var subs []importSub
		subs = append(subs, importSub{"sync", modPath + "/verifsim/simsync", "sync"})
		mono := false
		switch filepath.ToSlash(rel) {
		case "lambda/rapi/server.go":
			subs = append(subs, importSub{"net", modPath + "/verifsim/simnet", "net"})
		case "lambda/metering/time.go":
			mono = true
		case "lambda/supervisor/local_supervisor.go":
			if !haveKernel {
				break
			}
			subs = append(subs, importSub{"os/exec", modPath + "/verifsim/simkernel/simexec", "exec"})
			subs = append(subs, importSub{"syscall", modPath + "/verifsim/simkernel/simsyscall", "syscall"})
		}
		out, applied, err := transformFile(p, subs, mono, mapRanges[p])
		if err != nil {
			return err
		}
		if len(applied) == 0 {
			return nil
		}
		for _, a := range applied {
			switch a {
			case "sync":
				seenSync++
			case "net":
				seenNet = true
			case "monotime":
				seenMono = true
			case "os/exec":
				seenSupv = true
			case "maprange":
				res.MapRanges++
			}
		}
		dst := filepath.Join(scratch, "src", rel)
		if err := os.MkdirAll(filepath.Dir(dst), 0o755); err != nil {
			return err
		}
		if err := os.WriteFile(dst, out, 0o644); err != nil {
			return err
		}
		overlay[p] = dst
		res.Files++
		return nil
	})
	if err != nil {
		return res, troublef("transform: %v", err)
	}
	if seenSync < 5 {
		return res, troublef("transform: only %d files import \"sync\" - tree layout changed?", seenSync)
	}
	if !seenNet {
		return res, troublef("transform: lambda/rapi/server.go does not import \"net\" any more")
	}
	if !seenMono {
		return res, troublef("transform: body-less metering.Monotime not found")
	}
	if haveKernel && !seenSupv {
		return res, troublef("transform: lambda/supervisor/local_supervisor.go does not import os/exec any more")
	}

	// 2. harness packages and entry files
	err = filepath.Walk(simDir, func(p string, info os.FileInfo, err error) error {
		if err != nil || info.IsDir() || !strings.HasSuffix(p, ".go") {
			return err
		}
		rel, _ := filepath.Rel(simDir, p)
		rel = filepath.ToSlash(rel)
		if strings.HasPrefix(rel, "entry/") {
			overlay[filepath.Join(repo, "cmd", "aws-lambda-rie", filepath.Base(p))] = p
			return nil
		}
		overlay[filepath.Join(repo, "verifsim", filepath.FromSlash(rel))] = p
		return nil
	})
	if err != nil {
		return res, troublef("overlay: %v", err)
	}

	ov, _ := json.MarshalIndent(map[string]interface{}{"Replace": overlay}, "", " ")
	if err := os.WriteFile(filepath.Join(scratch, "overlay.json"), ov, 0o644); err != nil {
		return res, troublef("%v", err)
	}

	// 4. compile
	args := []string{"test",
		"-modfile=" + filepath.Join(scratch, "go.mod"),
		"-overlay=" + filepath.Join(scratch, "overlay.json"),
		"-vet=off", "-count=1", "-c", "-o", res.Worker}
	cgo := "CGO_ENABLED=0"
	if os.Getenv("VERIF_RACE") != "" {
		// race tier: the same worker with the race detector compiled in (needs cgo)
		args = append(args, "-race")
		cgo = "CGO_ENABLED=1"
	}
	cmd := exec.Command("go1.26.8", append(args, "./cmd/aws-lambda-rie")...)
	cmd.Dir = repo
	cmd.Env = append(os.Environ(), "GOFLAGS=-mod=mod", "GOPROXY=off", "GOSUMDB=off", "GOTOOLCHAIN=local", cgo)
	var buf bytes.Buffer
	cmd.Stdout = &buf
	cmd.Stderr = &buf
	if err := cmd.Run(); err != nil {
		return res, troublef("compile failed: %v\n%s", err, buf.String())
	}
	return res, nil
}

func transformFile(path string, subs []importSub, mono bool, ranges map[int]bool) ([]byte, []string, error) {
	src, err := os.ReadFile(path)
	if err != nil {
		return nil, nil, err
	}
	// cheap pre-filter
	yields := os.Getenv("VERIF_NO_YIELD") == "" && (bytes.Contains(src, []byte("\tgo ")) || bytes.Contains(src, []byte(" go ")) || bytes.Contains(src, []byte("Unlock()")))
	need := mono || len(ranges) > 0 || yields
	for _, s := range subs {
		if bytes.Contains(src, []byte(strconv.Quote(s.from))) {
			need = true
		}
	}
	if !need {
		return nil, nil, nil
	}
	fset := token.NewFileSet()
	f, err := parser.ParseFile(fset, path, src, parser.ParseComments)
	if err != nil {
		return nil, nil, err
	}
	var applied []string
	for _, imp := range f.Imports {
		p, _ := strconv.Unquote(imp.Path.Value)
		for _, s := range subs {
			if p == s.from {
				if imp.Name != nil && imp.Name.Name != s.name {
					if imp.Name.Name == "_" {
						continue
					}
					return nil, nil, fmt.Errorf("%s: import %q renamed to %s - not supported", path, p, imp.Name.Name)
				}
				imp.Path.Value = strconv.Quote(s.to)
				imp.Name = ast.NewIdent(s.name)
				applied = append(applied, s.from)
			}
		}
	}
	if mono {
		for _, d := range f.Decls {
			fd, ok := d.(*ast.FuncDecl)
			if !ok || fd.Name.Name != "Monotime" || fd.Recv != nil {
				continue
			}
			if fd.Body != nil {
				return nil, nil, fmt.Errorf("%s: Monotime already has a body", path)
			}
			// body: return time.Now().UnixNano() - 946000000000000000
			expr, err := parser.ParseExpr("func() int64 { return time.Now().UnixNano() - 946000000000000000 }")
			if err != nil {
				return nil, nil, err
			}
			fd.Body = expr.(*ast.FuncLit).Body
			// drop the go:linkname directive (and doc) of Monotime
			var keep []*ast.CommentGroup
			for _, cg := range f.Comments {
				drop := false
				for _, c := range cg.List {
					if strings.Contains(c.Text, "go:linkname Monotime") {
						drop = true
					}
				}
				if !drop {
					keep = append(keep, cg)
				}
			}
			f.Comments = keep
			fd.Doc = nil
			applied = append(applied, "monotime")
		}
	}
	if len(ranges) > 0 {
		if n := rewriteMapRanges(fset, f, ranges); n > 0 {
			applied = append(applied, "maprange")
			f.Imports = append(f.Imports, nil)[:len(f.Imports)]
			spec := &ast.ImportSpec{Name: ast.NewIdent("verifsimsort"), Path: &ast.BasicLit{Kind: token.STRING, Value: strconv.Quote(modPath + "/verifsim/simsort")}}
			added := false
			for _, d := range f.Decls {
				if gd, ok := d.(*ast.GenDecl); ok && gd.Tok == token.IMPORT {
					gd.Specs = append(gd.Specs, spec)
					if !gd.Lparen.IsValid() {
						gd.Lparen = gd.Pos()
						gd.Rparen = gd.End()
					}
					added = true
					break
				}
			}
			if !added {
				f.Decls = append([]ast.Decl{&ast.GenDecl{Tok: token.IMPORT, Specs: []ast.Spec{spec}}}, f.Decls...)
			}
		}
	}
	if yields {
		// a scheduling point after every go statement: the spawning goroutine parks (like at a lock acquisition) so that
		// the simulation decides whether it or the goroutine it has just started goes on first
		if n := insertYields(f); n > 0 {
			applied = append(applied, "goyield")
			spec := &ast.ImportSpec{Name: ast.NewIdent("verifsimyield"), Path: &ast.BasicLit{Kind: token.STRING, Value: strconv.Quote(modPath + "/verifsim/simsync")}}
			added := false
			for _, d := range f.Decls {
				if gd, ok := d.(*ast.GenDecl); ok && gd.Tok == token.IMPORT {
					gd.Specs = append(gd.Specs, spec)
					if !gd.Lparen.IsValid() {
						gd.Lparen = gd.Pos()
						gd.Rparen = gd.End()
					}
					added = true
					break
				}
			}
			if !added {
				f.Decls = append([]ast.Decl{&ast.GenDecl{Tok: token.IMPORT, Specs: []ast.Spec{spec}}}, f.Decls...)
			}
		}
	}
	if len(applied) == 0 {
		return nil, nil, nil
	}
	var out bytes.Buffer
	if err := format.Node(&out, fset, f); err != nil {
		return nil, nil, err
	}
	return out.Bytes(), applied, nil
}

func writeModfile(repo, scratch string) error {
	gomod, err := os.ReadFile(filepath.Join(repo, "go.mod"))
	if err != nil {
		return troublef("read go.mod: %v", err)
	}
	lines := strings.Split(string(gomod), "\n")
	found := false
	for i, l := range lines {
		if strings.HasPrefix(strings.TrimSpace(l), "go ") {
			lines[i] = "go 1.26.8"
			found = true
			break
		}
	}
	if !found {
		return troublef("go.mod has no go directive")
	}
	if err := os.WriteFile(filepath.Join(scratch, "go.mod"), []byte(strings.Join(lines, "\n")), 0o644); err != nil {
		return troublef("%v", err)
	}
	gosum, err := os.ReadFile(filepath.Join(repo, "go.sum"))
	if err != nil {
		return troublef("read go.sum: %v", err)
	}
	if err := os.WriteFile(filepath.Join(scratch, "go.sum"), gosum, 0o644); err != nil {
		return troublef("%v", err)
	}
	return nil
}

// insertYields puts `verifsimyield.Yield()` after every go statement of a statement list.
func insertYields(f *ast.File) int {
	n := 0
	yield := func() ast.Stmt {
		return &ast.ExprStmt{X: &ast.CallExpr{Fun: &ast.SelectorExpr{X: ast.NewIdent("verifsimyield"), Sel: ast.NewIdent("Yield")}}}
	}
	funcBody := map[*ast.BlockStmt]bool{}
	fix := func(list []ast.Stmt, isFuncBody bool) []ast.Stmt {
		var out []ast.Stmt
		for i, st := range list {
			out = append(out, st)
			if _, ok := st.(*ast.GoStmt); ok {
				out = append(out, yield())
				n++
			}
			// an Unlock / RUnlock statement (not a deferred one): the function goes on after the release - an explicit
			// unlock point, a scheduling point of the unlock-yield pass only (DESIGN 11.17)
			if es, ok := st.(*ast.ExprStmt); ok && !(isFuncBody && i == len(list)-1) { // not when the function ends there
				if ce, ok := es.X.(*ast.CallExpr); ok && len(ce.Args) == 0 {
					if se, ok := ce.Fun.(*ast.SelectorExpr); ok && (se.Sel.Name == "Unlock" || se.Sel.Name == "RUnlock") {
						out = append(out, &ast.ExprStmt{X: &ast.CallExpr{Fun: &ast.SelectorExpr{X: ast.NewIdent("verifsimyield"), Sel: ast.NewIdent("UnlockPoint")}}})
						n++
					}
				}
			}
		}
		return out
	}
	ast.Inspect(f, func(nd ast.Node) bool {
		switch x := nd.(type) {
		case *ast.FuncDecl:
			if x.Body != nil {
				funcBody[x.Body] = true
			}
		case *ast.FuncLit:
			funcBody[x.Body] = true
		case *ast.BlockStmt:
			x.List = fix(x.List, funcBody[x])
		case *ast.CaseClause:
			x.Body = fix(x.Body, false)
		case *ast.CommClause:
			x.Body = fix(x.Body, false)
		}
		return true
	})
	return n
}
