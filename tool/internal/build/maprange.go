package build

import (
	"bytes"
	"encoding/json"
	"fmt"
	"go/ast"
	"go/importer"
	"go/parser"
	"go/token"
	"go/types"
	"io"
	"os"
	"os/exec"
	"path/filepath"
	"strings"
)

type listPkg struct {
	ImportPath string
	Dir        string
	Export     string
	GoFiles    []string
	Standard   bool
}

// findMapRanges type-checks every package of the repository (dependencies come
// from compiler export data) and returns, per file, the offsets of the `for`
// keyword of every range statement that iterates over a map.
func findMapRanges(repo, modfile string) (map[string]map[int]bool, error) {
	cmd := exec.Command("go1.26.8", "list", "-modfile="+modfile, "-export", "-deps", "-json=ImportPath,Dir,Export,GoFiles,Standard", "./...")
	cmd.Dir = repo
	cmd.Env = append(os.Environ(), "GOFLAGS=-mod=mod", "GOPROXY=off", "GOSUMDB=off", "GOTOOLCHAIN=local", "CGO_ENABLED=0")
	var stderr bytes.Buffer
	cmd.Stderr = &stderr
	out, err := cmd.Output()
	if err != nil {
		return nil, fmt.Errorf("go list -export: %v\n%s", err, stderr.String())
	}
	exports := map[string]string{}
	var mine []listPkg
	dec := json.NewDecoder(bytes.NewReader(out))
	for {
		var p listPkg
		if err := dec.Decode(&p); err == io.EOF {
			break
		} else if err != nil {
			return nil, err
		}
		if p.Export != "" {
			exports[p.ImportPath] = p.Export
		}
		if strings.HasPrefix(p.ImportPath, modPath+"/") || p.ImportPath == modPath {
			mine = append(mine, p)
		}
	}
	fset := token.NewFileSet()
	imp := importer.ForCompiler(fset, "gc", func(path string) (io.ReadCloser, error) {
		f, ok := exports[path]
		if !ok {
			return nil, fmt.Errorf("no export data for %s", path)
		}
		return os.Open(f)
	})
	res := map[string]map[int]bool{}
	for _, p := range mine {
		var files []*ast.File
		for _, gf := range p.GoFiles {
			f, err := parser.ParseFile(fset, filepath.Join(p.Dir, gf), nil, parser.SkipObjectResolution)
			if err != nil {
				return nil, err
			}
			files = append(files, f)
		}
		info := &types.Info{Types: map[ast.Expr]types.TypeAndValue{}}
		conf := types.Config{Importer: imp, Error: func(error) {}}
		conf.Check(p.ImportPath, fset, files, info) // errors tolerated: we only need the types that resolved
		for _, f := range files {
			ast.Inspect(f, func(n ast.Node) bool {
				rs, ok := n.(*ast.RangeStmt)
				if !ok {
					return true
				}
				tv, ok := info.Types[rs.X]
				if !ok || tv.Type == nil {
					return true
				}
				if _, isMap := tv.Type.Underlying().(*types.Map); isMap {
					pos := fset.Position(rs.For)
					if res[pos.Filename] == nil {
						res[pos.Filename] = map[int]bool{}
					}
					res[pos.Filename][pos.Offset] = true
				}
				return true
			})
		}
	}
	return res, nil
}

// rewriteMapRanges replaces `for k, v := range m {..}` by an iteration over the sorted keys.
// It reports how many statements were rewritten.
func rewriteMapRanges(fset *token.FileSet, f *ast.File, sites map[int]bool) int {
	n := 0
	labelled := map[*ast.RangeStmt]bool{}
	ast.Inspect(f, func(nd ast.Node) bool {
		if ls, ok := nd.(*ast.LabeledStmt); ok {
			if rs, ok := ls.Stmt.(*ast.RangeStmt); ok {
				labelled[rs] = true
			}
		}
		return true
	})
	var visit func(list []ast.Stmt)
	rewrite := func(rs *ast.RangeStmt) ast.Stmt {
		if !sites[fset.Position(rs.For).Offset] || labelled[rs] {
			return nil
		}
		n++
		id := func(s string) *ast.Ident { return ast.NewIdent(s) }
		suffix := fmt.Sprintf("%d", n)
		mName, kName, vName, okName := "verifsimM"+suffix, "verifsimK"+suffix, "verifsimV"+suffix, "verifsimOK"+suffix
		// { m := X; for _, K := range simsort.Keys(m) { V, ok := m[K]; if !ok {continue}; k, v :=/= K, V; body } }
		var pre []ast.Stmt
		pre = append(pre, &ast.AssignStmt{Lhs: []ast.Expr{id(vName), id(okName)}, Tok: token.DEFINE,
			Rhs: []ast.Expr{&ast.IndexExpr{X: id(mName), Index: id(kName)}}})
		pre = append(pre, &ast.IfStmt{Cond: &ast.UnaryExpr{Op: token.NOT, X: id(okName)},
			Body: &ast.BlockStmt{List: []ast.Stmt{&ast.BranchStmt{Tok: token.CONTINUE}}}})
		pre = append(pre, &ast.AssignStmt{Lhs: []ast.Expr{id("_")}, Tok: token.ASSIGN, Rhs: []ast.Expr{id(vName)}})
		isBlank := func(e ast.Expr) bool {
			if e == nil {
				return true
			}
			i, ok := e.(*ast.Ident)
			return ok && i.Name == "_"
		}
		if !isBlank(rs.Key) {
			pre = append(pre, &ast.AssignStmt{Lhs: []ast.Expr{rs.Key}, Tok: rs.Tok, Rhs: []ast.Expr{id(kName)}})
		}
		if !isBlank(rs.Value) {
			pre = append(pre, &ast.AssignStmt{Lhs: []ast.Expr{rs.Value}, Tok: rs.Tok, Rhs: []ast.Expr{id(vName)}})
		}
		body := &ast.BlockStmt{List: append(pre, rs.Body.List...)}
		loop := &ast.RangeStmt{Key: id("_"), Value: id(kName), Tok: token.DEFINE,
			X:    &ast.CallExpr{Fun: &ast.SelectorExpr{X: id("verifsimsort"), Sel: id("Keys")}, Args: []ast.Expr{id(mName)}},
			Body: body}
		return &ast.BlockStmt{List: []ast.Stmt{
			&ast.AssignStmt{Lhs: []ast.Expr{id(mName)}, Tok: token.DEFINE, Rhs: []ast.Expr{rs.X}},
			loop,
		}}
	}
	visit = func(list []ast.Stmt) {
		for i, s := range list {
			if rs, ok := s.(*ast.RangeStmt); ok {
				if repl := rewrite(rs); repl != nil {
					list[i] = repl
				}
			}
		}
	}
	ast.Inspect(f, func(nd ast.Node) bool {
		switch b := nd.(type) {
		case *ast.BlockStmt:
			visit(b.List)
		case *ast.CaseClause:
			visit(b.Body)
		case *ast.CommClause:
			visit(b.Body)
		}
		return true
	})
	return n
}
