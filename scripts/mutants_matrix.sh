#!/bin/bash
# runs the quick tier of the owning check against every hand-written mutant; one line per mutant
out=/verif/mutants/RESULTS.txt
: > $out
for m in /verif/mutants/*.diff; do
  b=$(basename $m .diff)
  id=$(echo ${b%%_*} | tr a-z A-Z)
  r=$(/verif/scripts/withmut.sh $m /verif/bin/verif check $id --tier quick 2>&1)
  rc=$?
  case $rc in
    0) echo "MISSED  $b" >> $out;;
    1) echo "CAUGHT  $b: $(echo "$r" | grep -m1 'VIOLATION C' | sed 's/^ *//' | cut -c1-160)" >> $out;;
    *) echo "TROUBLE $b: $(echo "$r" | tail -2 | tr '\n' ' ' | cut -c1-200)" >> $out;;
  esac
done
