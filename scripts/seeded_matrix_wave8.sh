#!/bin/bash
out=/verif/seeded/RESULTS-wave8.txt
: > $out
for id in C01 C08 C12 C15; do
  for p in /verif/seeded/$id/w8-patch?.diff; do
    /verif/scripts/seedcheck.sh $p $id 2>&1 | tail -1 | cut -c1-260 | sed "s#^\([A-Z]*\) *$id #\1 $id/#" >> $out
  done
done
