#!/bin/bash
out=/verif/seeded/RESULTS-wave7.txt
: > $out
for id in C02 C03 C11 C13 C14 C17 C18 C19; do
  for p in /verif/seeded/$id/w7-patch?.diff; do
    /verif/scripts/seedcheck.sh $p $id 2>&1 | tail -1 | cut -c1-260 | sed "s#^\([A-Z]*\) *$id #\1 $id/#" >> $out
  done
done
