#!/bin/bash
out=/verif/seeded/RESULTS-wave2.txt
: > $out
for id in C02 C03 C05 C06 C07 C08 C09 C15; do
  for p in /verif/seeded/$id/w2-patch?.diff; do
    /verif/scripts/seedcheck.sh $p $id 2>&1 | tail -1 | cut -c1-260 | sed "s#^\([A-Z]*\) *$id #\1 $id/#" >> $out
  done
done
