#!/bin/bash
out=/verif/seeded/RESULTS-wave5.txt
: > $out
for id in C02 C03 C09 C11 C12 C13 C17 C18; do
  for p in /verif/seeded/$id/w5-patch?.diff; do
    /verif/scripts/seedcheck.sh $p $id 2>&1 | tail -1 | cut -c1-260 | sed "s#^\([A-Z]*\) *$id #\1 $id/#" >> $out
  done
done
