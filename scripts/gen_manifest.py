#!/usr/bin/env python3
"""Regenerates /verif/MANIFEST.json from the table below (kept next to the checks so it stays current)."""
import json, sys

NOTE = ("trusted base: Go 1.26.8 testing/synctest bubble (fake clock, quiescence); scheduler-owned simsync locks preserve mutual exclusion and "
        "happens-before; fake ProcessSupervisor / in-memory connections stand for the kernel and TCP; oracle written from the property statement "
        "and the public Lambda Runtime/Extensions API documents; sampled tapes, not exhaustive")

CHECKS = {
 "C03": ("exploration", "3 C03", "full-stack deterministic simulation: seeded register/next orders, one party stalled, step-stamped barrier oracle",
         "seeded search over arrival orders of 0-3 external + 0-2 internal extensions and the runtime with one party held back; decides the barrier by comparing step stamps of Exec requests, accepted registrations, first polls and first deliveries; evidence over sampled schedules, with every lock grant a simulator decision"),
 "C04": ("exploration", "3 C04", "full-stack deterministic simulation: seeded return orders over invocation sequences, step-stamped barrier and fan-out oracle",
         "seeded search over subscription sets, return orders and stalls across 2-6 consecutive invocations; the oracle compares every INVOKE event with the runtime's view and the completion step with the last return to next; sampled, not exhaustive"),

 "C05": ("exploration", "3 C05", "full-stack deterministic simulation on the fake clock: stall-phase matrix (also twice in a row), response / re-poll / end-of-init offset sweep against the expiry, lock-site holds spanning the emulator's timers; bound/teardown/recovery oracle",
         "seeded search over the phase in which a party stalls past the timeout, exact nanosecond offsets of the response and the re-polls around expiry, and goroutines held at reset/failure-path lock sites; decides outcome exclusivity, the answer bound on the fake clock, teardown-before-answer and recovery on fresh processes; sampled"),
 "C06": ("fault_enumeration", "3 C06 and appendix B", "full-stack deterministic simulation: enumerated crash-point x exit-kind x extension matrix, seeded schedules per cell, failure-table oracle",
         "every cell of the (party x protocol point x exit kind x 0-2 extensions) matrix is executed under many seeded schedules; the oracle is the failure table derived from the property statement (status, body provenance, first fault, teardown, recovery); cells enumerated completely, schedules sampled"),
 "C09": ("fault_enumeration", "3 C09", "full-stack deterministic simulation on the fake clock: enumerated trigger x process-behaviour matrix, timestamped supervisor-log oracle",
         "all 240 consistent cells of trigger x runtime behaviour x extension behaviours are executed with tape-drawn budgets, TERM delays around the 30% mark, kill and event latencies and lock-grant orders; the oracle checks order and exact fake-clock instants of Terminate/Kill requests, SHUTDOWN event count/reason/deadline and the return time of the operation; cells enumerated completely, continuous parameters sampled"),
 "C01": ("exploration", "3 C01", "full-stack deterministic simulation: seeded payload/size/history generator over invocation sequences, byte oracle at the runtime and at the caller",
         "seeded search over payload classes and sizes up to the limit, client contexts and histories in which earlier invocations succeeded, returned error bodies, timed out, crashed or were oversized; every delivery and every outcome is compared byte for byte, ids must be fresh, ARN/context/deadline exact; sampled"),
 "C14": ("exploration", "3 C14", "full-stack deterministic simulation: sizes around 6 MiB+100 at every position of an invocation sequence, byte and status oracle",
         "response and event sizes in a window around the limit (and 0, 1, limit/2) at every position of 2-6 invocation sequences; decides exactness of the limit in both directions, the 413/ResponseSizeTooLarge pair and survival without reset; sampled positions and mixes"),
 "C10": ("exploration", "3 C10", "full-stack deterministic simulation: extra callers injected at seven phases of an in-flight invocation including lock-site holds and the tail of its reset; interval and outcome oracle",
         "seeded search over the arrival of 1-2 extra callers during init, runtime work, extension tail, timeout reset, failure reset and inside lock windows of the first caller's own path; decides pairwise disjointness of in-flight intervals, immediate 4xx refusal, unchanged outcomes of the planned invocations and that the emulator survives; sampled"),
 "C02": ("exploration", "3 C02", "full-stack deterministic simulation: adversarial submissions over invocation histories, zombie requests held at lock sites across resets, and the platform's own delayed failure report; reference-register oracle",
         "seeded search over histories (ok/error/timeout/exit) with stale, unknown, empty and duplicate submissions, and over zombie requests of a dying runtime held at 10 lock sites of validator, handlers, state machine and interop server while reset, reservation, dispatch and response of later invocations proceed; decides accept-iff-in-flight-once, bodies delivered to callers, and that the legitimate runtime is never refused; sampled; two zombie-request defects are recorded as known findings"),
 "C07": ("exploration", "3 C07", "full-stack deterministic swarm simulation: random (mis)behaving party scripts over several faulty generations, lock-grant reordering and inventory-drawn holds; liveness/body/recovery oracle",
         "seeded swarm over scripts drawn from the full Runtime/Extensions API alphabet including misuse, stalls, exits, crashes while parked and truncated bodies, over 2-5 faulty generations followed by healthy ones, with 25-75% lock-grant reordering and goroutine holds at sites drawn from the tree's own lock-site inventory; decides that the emulator neither crashes nor wedges, that every invocation is answered within the bound with an admissible body, and that service recovers; sampled"),
 "C08": ("exploration", "3 C08", "differential deterministic simulation: suffix after (random prefix + reset) versus the same suffix after a trivial prefix, two bubbles per run, normalised trace equality",
         "seeded search over prefixes (healthy, error, crash, timeout, init error, extension crash, oversize, explicit reset) with late exit notifications up to beyond the exit grace, kill latency, lock-grant reordering and a goroutine held at clearing/cancelling/exit-handling lock sites, followed by a suffix scenario; the oracle is equality of the complete normalised suffix trace with the one obtained after a trivial prefix on a second fresh instance; sampled; the zombie-API-request family is recorded as a known finding"),
 "C11": ("exploration", "3 C11", "primitive-level deterministic simulation: the real gate / flow objects inside the bubble, tape-drawn operations released one lock acquisition at a time, held waiters; abstract counting-latch oracle after every operation",
         "seeded search over operation sequences of length 8-40 (arrive, set-count, register, re-arm, cancel with/without error, clear, up to 3 concurrent waiters, deadline waiter and fake-clock ticks for the init flow) on a single gate and on the init / invoke flow objects, with lock-grant reordering and a waiter held before its (re-)check across 1-4 further operations; decides return values, no waiter parked while its barrier is open, no premature or wrong verdict, cancellation stickiness and fan-out of flow operations; sampled"),
 "C12": ("exploration", "3 C12 and appendix A.1", "full-stack deterministic simulation: scripted runtimes over the Runtime API alphabet interleaved with caller arrivals; reference-automaton oracle",
         "seeded search over call sequences of length 2-12 per generation (three generations per run) over next / response / error with current, stale and unknown ids / init error / restore calls / unknown routes / wrong methods, interleaved with caller arrivals, in plain and snapshot mode; every verdict is compared with the reference automaton written from the public Runtime API documentation, a refused call must leave the state unchanged; sampled sequences"),
 "C13": ("exploration", "3 C13 and appendix A.2", "full-stack deterministic simulation: scripted external and internal extensions over the Extensions API alphabet; reference-automaton and refusal-table oracle",
         "seeded search over interleaved call sequences of 1-3 external and 0-11 internal extensions (register with arbitrary names, event lists and feature headers, next, init/error, exit/error with proper, missing, invalid and unknown identifiers, calls on a second connection while parked); every verdict is compared with the reference automaton and the documented refusal types; registration data is compared with the init parameters; sampled sequences"),
 "C15": ("exploration", "3 C15", "full-stack deterministic simulation with a recording EventsAPI over the scenario families of C01/C03-C07/C09; grammar and truthfulness oracle on the event trace",
         "the generators of seven scenario families (init orders, invocation sequences, timeouts with holds, crash-point matrix, shutdown matrix, swarm, histories) are re-run under this check and the recorded platform events are judged: block structure and phase tags, one extension line per known extension with true state class and subscriptions, invoke-start/runtime-done multiplicity, success only where the driver's ground truth says the step succeeded, error type = first delivered fault; sampled"),
 "C17": ("exploration", "3 C17", "package-level deterministic simulation: the real directinvoke + bandwidthlimiter code on the fake clock with a recording writer, a planned payload reader and injected read / write errors and resets; stateless reference parser and token-bucket oracle",
         "seeded search over request sequences (1-4 per run after tape-drawn left-behind settings) with all optional headers absent / valid / invalid, payload sizes around the limit, chunkings and delays, read errors, broken invoker connections, resets and stuck bodies at any offset or instant, and (every third run) direct bucket parameters outside the header ranges; decides history-independent parsing and effective settings, prefix-faithful forwarding, Complete / Oversized / Truncated classification, the burst + rate x time bound at every write, and termination of copy and reset handshake; sampled"),
 "C19": ("exploration", "3 C19", "deterministic simulation of the real LocalSupervisor over a simulated kernel (process table, groups, signals, wait statuses, pid reuse): tape-drawn process behaviours and concurrent Exec / Terminate / Kill, every system call a scheduling point; ground-truth oracle",
         "seeded search over up to 5 concurrent processes (exit codes, fatal signals, TERM trapped / ignored, kill latencies up to beyond the deadline, children in the group, failed starts) and 6-25 overlapping supervisor requests with deadlines from the past to 20 s, under pid exhaustion and reuse, descheduled supervisor goroutines before system calls, a slow events consumer and lock-grant reordering; decides exactly one truthful event per started process, Kill success only after reaping and error only when the deadline really passed first, Terminate without waiting, group-wide delivery, no stray signals, unknown names and failed starts refused; sampled"),
 "C18": ("exploration", "3 C18", "full-stack deterministic simulation in snapshot mode on the fake clock: seeded orders of restore request, restore poll, hook completion / error / overrun / exit and credentials requests",
         "seeded search over the order of the operator's restore request(s) and the runtime's restore poll, hook outcome (completes, restore/error, init/error, overruns the hook timeout by 1 ms .. 2 s, exits, never polls), reported error types, and interleaved credentials requests with right, wrong and missing tokens; decides result, step and exact fake-clock instant of every restore, every credentials response and the absence of key variables from the runtime's environment; sampled"),
}

RACE = {"C02", "C03", "C04", "C05", "C06", "C07", "C09", "C10", "C11", "C12", "C13", "C17", "C18"}

RACE_NARROW = {"C05": "lambda/rapid/shutdown.go, lambda/rapid/exit.go and lambda/core/flow.go",
               "C07": "lambda/rapid/shutdown.go, lambda/core/states.go, lambda/rapi/handler/invocationresponse.go and lambda/rapi/rendering/render_error.go"}

UY = {"C07": ("20 000", "200 000"), "C08": ("8 000", "100 000"), "C05": ("5 000", "30 000"), "C10": ("5 000", "30 000")}

NA = [
 ("C16", "pure function of configuration (environment layering); no schedule, clock, fault or interleaving for a simulator to decide (DESIGN.md 4)"),
 ("C20", "pure functions of one request's header strings and body (sanitisation/cropping); no concurrency, time or fault participates (DESIGN.md 4)"),
]

def main():
    checks = []
    for pid in sorted(CHECKS):
        level, ref, tech, text = CHECKS[pid]
        if pid in RACE:
            tech += "; followed by a race pass: the same seeded scenarios on a worker built with the race detector, the simulator's own synchronisation hidden from it and the edges of the simulated locks declared (DESIGN 11.12)"
            text += " After the main pass a race pass (1 500 runs quick, 40 000 thorough) runs the same generators under the race detector; two unsynchronised accesses of emulator code that both lie in the files this property is anchored in are a violation (rule data-race)."
            if pid in RACE_NARROW:
                text += " For this property the race pass (3 000 runs quick) is narrowed to " + RACE_NARROW[pid] + " (DESIGN 11.12)."
        if pid in UY:
            tech += "; followed by an unlock-yield pass: the same seeded scenarios with one more kind of scheduling point, the release of a lock, and goroutines held at the explicit unlock points of the tree (DESIGN 11.17)"
            text += " After the main pass an unlock-yield pass (%s runs quick, %s thorough) runs the same generator with a scheduling point after every release of a lock and holds goroutines at places where a function goes on after an explicit Unlock (in C07 and C08 in every run and across the emulator's own timers)." % UY[pid]
        checks.append({
            "property_id": pid,
            "quick_cmd": f"/verif/bin/verif check {pid} --tier quick",
            "thorough_cmd": f"/verif/bin/verif check {pid} --tier thorough",
            "evidence_file": f"/verif/evidence/{pid}.json",
            "replay_cmd_template": "/verif/bin/verif replay {path}",
            "engine": "verifsim",
            "level_claimed": {"category": level, "text": text, "design_ref": "DESIGN.md section " + ref},
            "level_note": NOTE,
            "technique": tech,
        })
    m = {
        "version": 1,
        "setup_cmd": "cd /verif/tool && GOFLAGS=-mod=mod GOPROXY=off GOSUMDB=off GOTOOLCHAIN=local go1.26.8 build -o /verif/bin/verif ./cmd/verif && /verif/bin/verif warm",
        "hooks": {
            "guard": "verifsim",
            "enable": "no source hooks: every check rebuilds /repo's working tree with `go1.26.8 test -c -modfile=<go.mod copy, go 1.26.8> -overlay=<json>`; the overlay injects AST-transformed copies (import sync -> verifsim/simsync, a simsync.Yield() after every go statement and a simsync.UnlockPoint() after every explicit Unlock statement, import net -> verifsim/simnet in lambda/rapi/server.go, a body for metering.Monotime, os/exec+syscall -> verifsim/simkernel in lambda/supervisor/local_supervisor.go), the harness packages under verifsim/ and a test entry file in cmd/aws-lambda-rie (DESIGN.md 2.3); /repo is never written",
            "baseline_off_cmd": "cd /repo && go test -vet=off -count=1 ./...",
            "source_commits": [],
            "add_only": True,
        },
        "engines": [{"name": "verifsim", "path": "/verif/sim", "serves_properties": sorted(CHECKS), "kind_free_text": "deterministic simulation with fault injection: real emulator code in a synctest bubble under a seeded driver that owns clock, lock grants, processes, connections and faults"}],
        "checks": checks,
        "not_applicable": [{"property_id": p, "reason": r} for p, r in NA if p not in CHECKS],
        "notes": "replay files are written to /verif/replays; known findings in /verif/known_findings.jsonl; exit 2 = harness/build/determinism trouble (never a violation)",
    }
    json.dump(m, open("/verif/MANIFEST.json", "w"), indent=1)
    print("wrote MANIFEST.json with", len(checks), "checks")

if __name__ == "__main__":
    main()
