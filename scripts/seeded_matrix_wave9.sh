#!/bin/bash
out=/verif/seeded/RESULTS-wave9.txt
: > $out
for id in C04 C06 C09 C10; do
  for p in /verif/seeded/$id/w9-patch?.diff; do
    /verif/scripts/seedcheck.sh $p $id 2>&1 | tail -1 | cut -c1-260 | sed "s#^\([A-Z]*\) *$id #\1 $id/#" >> $out
  done
done
