#!/bin/bash
out=/verif/seeded/RESULTS-wave3.txt
: > $out
for id in C01 C04 C10 C11 C12 C13 C14 C17 C18 C19; do
  for p in /verif/seeded/$id/w3-patch?.diff; do
    /verif/scripts/seedcheck.sh $p $id 2>&1 | tail -1 | cut -c1-260 | sed "s#^\([A-Z]*\) *$id #\1 $id/#" >> $out
  done
done
