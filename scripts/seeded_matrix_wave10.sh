#!/bin/bash
out=/verif/seeded/RESULTS-wave10.txt
: > $out
for id in C05 C07 C11 C19; do
  for p in /verif/seeded/$id/w10-patch?.diff; do
    /verif/scripts/seedcheck.sh $p $id 2>&1 | tail -1 | cut -c1-260 | sed "s#^\([A-Z]*\) *$id #\1 $id/#" >> $out
  done
done
