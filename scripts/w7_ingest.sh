#!/bin/bash
# usage: w7_ingest.sh <ID>   - confirm a wave-7 sub-agent delivery (/tmp/w7-<ID>-out) in a scratch worktree and copy it to /verif/seeded/<ID>/w7-*
# per patch: applies cleanly, builds, unedited test suite passes with it, the demonstration fails with it and passes without it
set -u
export GOFLAGS=-mod=mod GOPROXY=off GOSUMDB=off GOTOOLCHAIN=local
id=$1; src=/tmp/w7-$id-out; dst=/verif/seeded/$id
log=/tmp/w7-$id-confirm.log; : > $log
for n in 1 2; do
  p=$src/patch$n.diff; d=$(ls $src/demo${n}*_test.go $src/demo${n}*.go 2>/dev/null | head -1)
  [ -f "$p" ] || { echo "$id/$n: no patch" | tee -a $log; continue; }
  wt=$(mktemp -d /tmp/w7c-XXXXXX); rmdir $wt
  git -C /repo worktree add --detach $wt >/dev/null 2>&1
  pkgdir=$(head -3 "$d" | grep -o '\(lambda\|cmd\)/[A-Za-z0-9_/.-]*' | head -1 | sed 's#/[^/]*\.go$##; s#/$##')
  [ -d "$wt/$pkgdir" ] || pkgdir=$(dirname $(grep '^+++ b/' $p | head -1 | sed 's#+++ b/##'))
  cp "$d" $wt/$pkgdir/zz_w7demo${n}_test.go
  run=$(grep -o 'func Test[A-Za-z0-9_]*' "$d" | sed 's/func //' | paste -sd'|')
  ( cd $wt/$pkgdir && timeout 600 go test -vet=off -count=1 -run "^($run)\$" . ) > /tmp/w7-$id-$n-clean.out 2>&1; rc_clean=$?
  git -C $wt apply $p || { echo "$id/$n: patch does not apply" | tee -a $log; }
  ( cd $wt && go build ./... ) >/dev/null 2>&1; rc_build=$?
  ( cd $wt/$pkgdir && timeout 600 go test -vet=off -count=1 -run "^($run)\$" . ) > /tmp/w7-$id-$n-patched.out 2>&1; rc_patched=$?
  rm -f $wt/$pkgdir/zz_w7demo${n}_test.go
  ( cd $wt && timeout 1500 go test -vet=off -count=1 ./... ) > /tmp/w7-$id-$n-suite.out 2>&1; rc_suite=$?
  echo "$id/$n pkg=$pkgdir demo_clean_rc=$rc_clean demo_patched_rc=$rc_patched build_rc=$rc_build suite_rc=$rc_suite" | tee -a $log
  git -C /repo worktree remove --force $wt >/dev/null 2>&1; rm -rf $wt; git -C /repo worktree prune
  mkdir -p $dst; cp $p $dst/w7-patch$n.diff; cp "$d" $dst/w7-demo${n}_test.go
done
cp $src/notes.md $dst/w7-notes.md 2>/dev/null
