#!/bin/bash
# usage: seeded_recheck.sh <ID>...  - re-run every seeded change of the given properties (all waves) against the current
# checks and replace their lines in seeded/RESULTS*.txt (the per-wave matrix scripts regenerate whole files)
for id in "$@"; do
  for p in /verif/seeded/$id/*patch?.diff; do
    b=$(basename $p)
    case $b in
      w2-*) f=RESULTS-wave2.txt;; w3-*) f=RESULTS-wave3.txt;; w4-*) f=RESULTS-wave4.txt;; w5-*) f=RESULTS-wave5.txt;;
      w6-*) f=RESULTS-wave6.txt;; w7-*) f=RESULTS-wave7.txt;; w8-*) f=RESULTS-wave8.txt;; w9-*) f=RESULTS-wave9.txt;; w10-*) f=RESULTS-wave10.txt;; *) f=RESULTS.txt;;
    esac
    line=$(/verif/scripts/seedcheck.sh $p $id 2>&1 | tail -1 | cut -c1-260 | sed "s#^\([A-Z]*\) *$id #\1 $id/#")
    python3 - "$f" "$id/$b" "$line" <<'PY'
import sys,re
f,key,line=sys.argv[1:4]
p='/verif/seeded/'+f
try: ls=open(p).read().splitlines()
except FileNotFoundError: ls=[]
out=[];done=False
for l in ls:
    if re.search(r'\b'+re.escape(key)+r'\b',l) and not done:
        out.append(line);done=True
    else: out.append(l)
if not done: out.append(line)
open(p,'w').write('\n'.join(out)+'\n')
PY
    echo "$line" | cut -c1-160
  done
done
