#!/bin/bash
# usage: wave_ingest.sh <ID> [w7|w8|w9|w10]   - confirm a sub-agent delivery of the seventh, eighth or ninth wave (/tmp/<wave>-<ID>-out) in a scratch worktree and copy it to /verif/seeded/<ID>/<wave>-*
# per patch: applies cleanly, builds, unedited test suite passes with it, the demonstration fails with it and passes without it
set -u
export GOFLAGS=-mod=mod GOPROXY=off GOSUMDB=off GOTOOLCHAIN=local
id=$1; wv=${2:-w7}; src=/tmp/$wv-$id-out; dst=/verif/seeded/$id
log=/tmp/$wv-$id-confirm.log; : > $log
for n in 1 2; do
  p=$src/patch$n.diff; d=$(ls $src/demo${n}*_test.go $src/demo${n}*.go 2>/dev/null | head -1)
  [ -f "$p" ] || { echo "$id/$n: no patch" | tee -a $log; continue; }
  wt=$(mktemp -d /tmp/wvc-XXXXXX); rmdir $wt
  git -C /repo worktree add --detach $wt >/dev/null 2>&1
  pkgdir=$(head -3 "$d" | grep -o '\(lambda\|cmd\)/[A-Za-z0-9_/.-]*' | head -1 | sed 's#/[^/]*\.go$##; s#/$##')
  [ -d "$wt/$pkgdir" ] || pkgdir=$(dirname $(grep '^+++ b/' $p | head -1 | sed 's#+++ b/##'))
  cp "$d" $wt/$pkgdir/zz_wavedemo${n}_test.go
  run=$(grep -o 'func Test[A-Za-z0-9_]*' "$d" | sed 's/func //' | paste -sd'|')
  ( cd $wt/$pkgdir && timeout 600 go test -vet=off -count=1 -run "^($run)\$" . ) > /tmp/$wv-$id-$n-clean.out 2>&1; rc_clean=$?
  git -C $wt apply $p || { echo "$id/$n: patch does not apply" | tee -a $log; }
  ( cd $wt && go build ./... ) >/dev/null 2>&1; rc_build=$?
  ( cd $wt/$pkgdir && timeout 600 go test -vet=off -count=1 -run "^($run)\$" . ) > /tmp/$wv-$id-$n-patched.out 2>&1; rc_patched=$?
  rm -f $wt/$pkgdir/zz_wavedemo${n}_test.go
  ( cd $wt && timeout 1500 go test -vet=off -count=1 ./... ) > /tmp/$wv-$id-$n-suite.out 2>&1; rc_suite=$?
  echo "$id/$n pkg=$pkgdir demo_clean_rc=$rc_clean demo_patched_rc=$rc_patched build_rc=$rc_build suite_rc=$rc_suite" | tee -a $log
  git -C /repo worktree remove --force $wt >/dev/null 2>&1; rm -rf $wt; git -C /repo worktree prune
  mkdir -p $dst; cp $p $dst/$wv-patch$n.diff; cp "$d" $dst/$wv-demo${n}_test.go
done
cp $src/notes.md $dst/$wv-notes.md 2>/dev/null
