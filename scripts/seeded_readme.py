#!/usr/bin/env python3
"""Regenerate /verif/seeded/README.md from the meta files and the RESULTS*.txt files of the waves."""
import json, os, re

ROOT = '/verif/seeded'
NOTES = {
    ('', 'C02', 3): 'not reachable: needs a direct invoke (FastInvoke with direct=true), which the emulator front end never issues',
    ('', 'C07', 2): 'caught by C05 (sweep of the end of init against the expiry with a hold at the dispatch) and by C07 with about 100 000 runs; the window is one lock acquisition wide',
    ('', 'C08', 3): 'MISSED by every check: needs Server.Clear() to run while no reservation is held and an unconsumed cached init error; through the front end that is only a race of the timeout with the release of an invocation whose init failed',
    ('', 'C10', 2): 'the patch no longer applies after fix F20 (same lines); its port patch2.ported.diff is harmless on the repaired tree: a reservation is refused for as long as the reset is in progress',
    ('', 'C10', 3): 'the patch no longer applies after fixes F23/F24 (same lines); its port patch3.ported.diff is caught (emulator crash: nil reservation dereferenced)',
    ('w2-', 'C07', 2): 'the patch no longer applies after fix F27 (same lines); its port w2-patch2.ported.diff is caught (emulator crash: negative WaitGroup counter)',
    ('w6-', 'C05', 3): 'manifests (earlier runs reported C05.recovery), but in the changed code two cases of one select are ready at the same instant and Go picks at random: the confirmation replay of the first hit of the fixed quick seed does not reproduce and the check reports harness trouble (exit 2) instead of a violation; C01/w6-1 is the same change',
    ('', 'C13', 2): 'MISSED by every check: needs an internal registration under the name of an external extension that the launch loop has not created yet plus a further registration before the failed initialisation is torn down',
    ('w5-', 'C13', 2): 'MISSED: needs two calls of the same extension in flight at once (the actors of the simulation are sequential clients, like real extensions); no data race either (every access stays under the lock)',
    ('w5-', 'C17', 2): 'MISSED: the lost wake-up needs the ticker goroutine to run between two statements of the copy goroutine that have no lock acquisition, channel operation or goroutine start between them - not a scheduling point of the simulation, and not a data race',
    ('w6-', 'C01', 1): 'caught by C05 (the same change is C05/w6-3): needs the response to race the expiry',
    ('w6-', 'C01', 2): 'caught by C10 (the same change is C10/w6-2): needs a second caller in the very step of the first',
    ('w6-', 'C01', 3): 'MISSED: needs two polls of one runtime in flight at once; a data race, but C01 has no race pass (maximum-size bodies are too slow under the detector)',
    ('w6-', 'C07', 1): 'missed by the main pass (needs a preemption between an unlock and the next statement); caught since the unlock-yield pass exists (DESIGN 11.17)',
    ('w6-', 'C08', 2): 'same change as C07/w6-1: caught by the unlock-yield pass of C08',
    ('w6-', 'C08', 3): 'caught by C05 (the same change is C05/w6-1)',
    ('w6-', 'C15', 2): 'not observable in the emulator: the reset reasons the moved code tests for ("timeout", "failure") are spelled "Timeout" / "ReleaseFail" in RIE mode, a reset never emits that event',
    ('w10-', 'C05', 1): 'missed by C05 (also with 150 000 runs): the expiry has to land between the dispatch check and the re-arming of the barriers of an invocation that follows a completed one; caught by C11 (C11.stuck-waiter: a cancellation of a numerically open gate is lost once the count changes)',
    ('w10-', 'C11', 1): 'MISSED by every check (C11, C12, C18 tried): needs a deadline that has already passed when the wait starts; the generators only produce deadlines in the future (a wait entered after its deadline finds both cases of the select ready when the gate is open, which would not replay)',
    ('w9-', 'C06', 2): 'missed by C06 (no extension of its matrix answers SHUTDOWN with exit/error); the same change is C08/w8-2 and C15/w8-1, caught by C08 (suffix differs) and C15 (error type of the next initialisation)',
    ('w9-', 'C10', 2): 'caught as an emulator crash (second initialisation of a sandbox in use)',
    ('w7-', 'C13', 2): 'not observable in the emulator: the account id of the init request is always empty in RIE mode (cmd/aws-lambda-rie never sets it), the field is omitted from every register response whatever the cache holds',
    ('w7-', 'C19', 1): 'MISSED: needs one name used for two processes at the same time, which the check assumes away (model.ExecRequest: names identify a process; the emulator never re-uses a name while its process runs) - recorded as a limit of C19',
    ('w5-', 'C17', 3): 'not reachable: the direct-invoke branch of rapidcore/server.go is never taken by the emulator front end (same limit as C02/3)',
}


def results(fname, prefix):
    res = {}
    p = os.path.join(ROOT, fname)
    if not os.path.exists(p):
        return res
    for l in open(p):
        l = l.strip()
        m = re.match(r'(\w+) (C\d\d)/' + prefix + r'(patch\d)\.diff:? ?(.*)', l)
        if m:
            res[(m.group(2), m.group(3))] = (m.group(1), m.group(4))
            continue
        m = re.match(r'TROUBLE patch does not apply: .*/(C\d\d)/' + prefix + r'(patch\d)\.diff', l)
        if m:
            res[(m.group(1), m.group(2))] = ('NO LONGER APPLIES', '')
    return res


def table(prefix, fname):
    res = results(fname, prefix)
    rows = []
    for id in sorted(os.listdir(ROOT)):
        d = os.path.join(ROOT, id)
        if not os.path.isdir(d):
            continue
        for n in (1, 2, 3):
            mp = f'{d}/{prefix}meta{n}.json'
            if not os.path.exists(mp):
                continue
            try:
                m = json.load(open(mp))
                clause = (m.get('clause') or '').replace('|', '/')[:120]
                files = ','.join(os.path.basename(f) for f in m.get('files', []))
            except Exception:
                clause, files = '', ''
            v, msg = res.get((id, f'patch{n}'), ('?', ''))
            mm = re.search(r'VIOLATION (C\d\d\.[\w-]+)', msg)
            rule = mm.group(1) if mm else ('emulator crash' if v == 'CAUGHT' else '')
            rows.append((id, n, files, clause, v, rule, NOTES.get((prefix, id, n), '')))
    out = '| property | # | file(s) | clause broken | own quick tier | rule that fired | note |\n|---|---|---|---|---|---|---|\n'
    for r in rows:
        out += '| %s | %d | %s | %s | %s | %s | %s |\n' % r
    caught = sum(1 for r in rows if r[4] == 'CAUGHT')
    return out, caught, len(rows)


s = '''# Seeded breakages

Each directory holds source changes written by independent sub-agents that were given only the text of that
property and a scratch worktree (nothing from /verif): `patchN.diff`, `demoN.md` (what breaks, what is needed for it
to show, a throw-away demonstration), `metaN.json`; later waves carry the prefix `w2-` ... `w10-` (the seventh to ninth wave have `w7-demoN_test.go` / `w8-demoN_test.go` / `w9-demoN_test.go` and `-notes.md` instead of `demoN.md`).
Every patch compiles and passes the unedited test suite. `RESULTS*.txt` hold the output of
`scripts/seedcheck.sh <patch> <ID>` (quick tier of the property's own check against a scratch worktree with the
patch applied) on the current tree; `scripts/seeded_matrix_wave{1,...,10}.sh` regenerate them, this file is regenerated by
`scripts/seeded_readme.py`.

'''
for title, prefix, fname in (('First wave (18 properties, 54 patches)', '', 'RESULTS.txt'),
                             ('Second wave (8 properties, 24 patches; asked for interleaving / timing / history dependent changes)', 'w2-', 'RESULTS-wave2.txt'),
                             ('Third wave (10 properties, 30 patches)', 'w3-', 'RESULTS-wave3.txt'),
                             ('Fourth wave (8 properties, 24 patches; asked for subtler changes)', 'w4-', 'RESULTS-wave4.txt'),
                             ('Fifth wave (8 properties, 24 patches; asked for synchronisation mistakes)', 'w5-', 'RESULTS-wave5.txt'),
                             ('Sixth wave (8 properties, 24 patches; concurrency and ordering mistakes)', 'w6-', 'RESULTS-wave6.txt'),
                             ('Seventh wave (8 properties, 16 patches; history, ordering and boundary dependent changes)', 'w7-', 'RESULTS-wave7.txt'),
                             ('Eighth wave (4 properties, 8 patches; history and sequence dependent changes)', 'w8-', 'RESULTS-wave8.txt'),
                             ('Ninth wave (4 properties, 8 patches; combination and phase dependent changes)', 'w9-', 'RESULTS-wave9.txt'),
                             ('Tenth wave (4 properties; phase, sequence and process-behaviour dependent changes)', 'w10-', 'RESULTS-wave10.txt')):
    t, c, n = table(prefix, fname)
    s += f'## {title}\n\n{c} of {n} caught by the quick tier of the own check.\n\n{t}\n'
open(os.path.join(ROOT, 'README.md'), 'w').write(s)
print('README.md written')
