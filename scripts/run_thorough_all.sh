#!/bin/bash
# Runs the registered thorough command of every check against /repo, one after the other, keeps each evidence
# file under /verif/evidence_thorough/ and a one-line summary per check in /verif/evidence_thorough/SUMMARY.txt.
# (The files under /verif/evidence are rewritten by every run; the quick tier is re-run afterwards.)
mkdir -p /verif/evidence_thorough
sum=/verif/evidence_thorough/SUMMARY.txt
[ -n "${APPEND:-}" ] || : > $sum
for id in ${IDS:-C01 C14 C02 C05 C10 C13 C12 C18 C19 C11 C08 C07 C09 C15 C03 C04 C06 C17}; do
  start=$(date +%s)
  /verif/bin/verif check $id --tier thorough ${EXTRA:-} > /tmp/thorough-$id.log 2>&1
  rc=$?
  cp /verif/evidence/$id.json /verif/evidence_thorough/$id.json 2>/dev/null
  echo "$id rc=$rc $(( $(date +%s) - start ))s $(grep -v '^KNOWN' /tmp/thorough-$id.log | tail -1 | cut -c1-200)" >> $sum
  grep '^KNOWN' /tmp/thorough-$id.log | cut -c1-160 >> $sum
done
echo ALLDONE >> $sum
