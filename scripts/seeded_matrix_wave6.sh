#!/bin/bash
out=/verif/seeded/RESULTS-wave6.txt
: > $out
for id in C01 C04 C05 C06 C07 C08 C10 C15; do
  for p in /verif/seeded/$id/w6-patch?.diff; do
    /verif/scripts/seedcheck.sh $p $id 2>&1 | tail -1 | cut -c1-260 | sed "s#^\([A-Z]*\) *$id #\1 $id/#" >> $out
  done
done
