#!/bin/bash
# usage: withmut.sh <patch.diff> <command...>   - run a command against a scratch worktree of /repo with the patch applied
set -u
patch=$(readlink -f "$1"); shift
wt=$(mktemp -d /tmp/wt-XXXXXX)
rmdir "$wt"
git -C /repo worktree add --detach "$wt" >/dev/null 2>&1 || { echo "worktree failed"; exit 2; }
cleanup() { git -C /repo worktree remove --force "$wt" >/dev/null 2>&1; rm -rf "$wt"; git -C /repo worktree prune; }
trap cleanup EXIT
# carry over uncommitted changes of /repo (fix candidates) first
git -C /repo diff HEAD | git -C "$wt" apply 2>/dev/null
git -C "$wt" apply "$patch" || { echo "patch does not apply"; exit 2; }
VERIF_REPO="$wt" "$@"
