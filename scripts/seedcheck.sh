#!/bin/bash
# usage: seedcheck.sh <patch.diff> <ID> [more IDs...]  - run the quick tier of the given checks against a scratch
# worktree of /repo with the patch applied; prints one line per check: CAUGHT / MISSED / TROUBLE
set -u
patch=$(readlink -f "$1"); shift
wt=$(mktemp -d /tmp/wt-XXXXXX); rmdir "$wt"
git -C /repo worktree add --detach "$wt" >/dev/null 2>&1 || { echo "worktree failed"; exit 2; }
cleanup() { git -C /repo worktree remove --force "$wt" >/dev/null 2>&1; rm -rf "$wt"; git -C /repo worktree prune; }
trap cleanup EXIT
git -C "$wt" apply "$patch" 2>/dev/null || git -C "$wt" apply --3way "$patch" >/dev/null 2>&1 || { echo "TROUBLE patch does not apply: $patch"; exit 2; }
( cd "$wt" && go build ./... ) >/dev/null 2>&1 || { echo "TROUBLE patched tree does not build: $patch"; exit 2; }
for id in "$@"; do
  out=$(VERIF_REPO="$wt" VERIF_EVIDENCE_DIR=/tmp/seed-evidence /verif/bin/verif check "$id" --tier ${TIER:-quick} ${EXTRA:-} 2>&1)
  rc=$?
  case $rc in
    0) echo "MISSED  $id $(basename $patch)";;
    1) echo "CAUGHT  $id $(basename $patch): $(echo "$out" | grep -m1 'VIOLATION C' | sed 's/^ *//' | cut -c1-220)";;
    *) echo "TROUBLE $id $(basename $patch): $(echo "$out" | tail -3 | tr '\n' ' ' | cut -c1-300)";;
  esac
done
