// Package simnet replaces "net" in lambda/rapi/server.go for simulated builds:
// Listen returns an in-memory listener registered by address, Dial connects to
// it through a pair of buffered in-memory connections. All blocking is on real
// sync.Cond (durably blocking inside a testing/synctest bubble).
package simnet

import (
	"errors"
	"io"
	"net"
	"os"
	"sync"
	"time"
)

type (
	Listener = net.Listener
	Conn     = net.Conn
	TCPAddr  = net.TCPAddr
	Addr     = net.Addr
)

var (
	regMu     sync.Mutex
	listeners = map[string]*listener{}
	// OnActivity is called (if set) whenever a connection delivers data or is
	// closed, so the simulation driver can notice harness-visible progress.
	OnActivity func()
)

// Reset forgets all listeners (start of a run).
func Reset() {
	regMu.Lock()
	listeners = map[string]*listener{}
	regMu.Unlock()
}

type listener struct {
	mu     sync.Mutex
	cond   *sync.Cond
	q      []net.Conn
	closed bool
	addr   *net.TCPAddr
	key    string
}

func Listen(network, address string) (Listener, error) {
	host, port, err := net.SplitHostPort(address)
	if err != nil {
		return nil, err
	}
	p := 0
	for _, c := range port {
		if c < '0' || c > '9' {
			return nil, errors.New("simnet: bad port")
		}
		p = p*10 + int(c-'0')
	}
	regMu.Lock()
	defer regMu.Unlock()
	if p == 0 {
		p = 40000 + len(listeners)
	}
	key := net.JoinHostPort(host, itoa(p))
	if l, ok := listeners[key]; ok && !l.closed {
		return nil, errors.New("simnet: address already in use")
	}
	l := &listener{addr: &net.TCPAddr{IP: net.ParseIP(host), Port: p}, key: key}
	l.cond = sync.NewCond(&l.mu)
	listeners[key] = l
	return l, nil
}

func itoa(n int) string {
	if n == 0 {
		return "0"
	}
	var b [12]byte
	i := len(b)
	for n > 0 {
		i--
		b[i] = byte('0' + n%10)
		n /= 10
	}
	return string(b[i:])
}

func (l *listener) Accept() (net.Conn, error) {
	l.mu.Lock()
	defer l.mu.Unlock()
	for len(l.q) == 0 && !l.closed {
		l.cond.Wait()
	}
	if l.closed {
		return nil, net.ErrClosed
	}
	c := l.q[0]
	l.q = l.q[1:]
	return c, nil
}

func (l *listener) Close() error {
	l.mu.Lock()
	l.closed = true
	l.cond.Broadcast()
	l.mu.Unlock()
	return nil
}

func (l *listener) Addr() net.Addr { return l.addr }

// Listening reports whether somebody listens on address.
func Listening(address string) bool {
	regMu.Lock()
	defer regMu.Unlock()
	l, ok := listeners[address]
	return ok && !l.closed
}

// Dial connects to a simulated listener.
// Dial connects to a simulated listener with unbounded buffers in both directions.
func Dial(address string) (net.Conn, error) { return DialCap(address, 0) }

// DialCap is Dial with a bounded receive buffer at the dialling end: the server's writes block (as on a TCP
// connection whose peer reads slowly) once recvCap bytes are waiting to be read. 0 = unbounded.
func DialCap(address string, recvCap int) (net.Conn, error) {
	regMu.Lock()
	l, ok := listeners[address]
	regMu.Unlock()
	if !ok {
		return nil, errors.New("simnet: connection refused: " + address)
	}
	a := &half{cap: recvCap}
	a.cond = sync.NewCond(&a.mu)
	b := &half{}
	b.cond = sync.NewCond(&b.mu)
	client := &conn{r: a, w: b, local: &net.TCPAddr{IP: net.IPv4(127, 0, 0, 1), Port: 50000}, remote: l.addr}
	server := &conn{r: b, w: a, local: l.addr, remote: client.local}
	l.mu.Lock()
	if l.closed {
		l.mu.Unlock()
		return nil, errors.New("simnet: connection refused (closed): " + address)
	}
	l.q = append(l.q, server)
	l.cond.Broadcast()
	l.mu.Unlock()
	return client, nil
}

// half is one direction of a connection: written by one end, read by the other.
type half struct {
	mu        sync.Mutex
	cond      *sync.Cond
	buf       []byte
	wclosed   bool // writer closed: reader gets EOF after draining
	rclosed   bool // reader closed: writer gets EPIPE
	deadline  time.Time
	timer     *time.Timer
	cap       int       // >0: at most this many unread bytes; the writer blocks beyond
	wdeadline time.Time // write deadline of the writing end
	wtimer    *time.Timer
}

type conn struct {
	r, w          *half
	local, remote net.Addr
}

func activity() {
	if f := OnActivity; f != nil {
		f()
	}
}

func (c *conn) Read(p []byte) (int, error) {
	h := c.r
	h.mu.Lock()
	defer h.mu.Unlock()
	for {
		if h.rclosed {
			return 0, io.ErrClosedPipe
		}
		if len(h.buf) > 0 {
			n := copy(p, h.buf)
			h.buf = h.buf[n:]
			if len(h.buf) == 0 {
				h.buf = nil
			}
			if h.cap > 0 {
				h.cond.Broadcast() // room for a blocked writer
			}
			return n, nil
		}
		if h.wclosed {
			return 0, io.EOF
		}
		if !h.deadline.IsZero() && !time.Now().Before(h.deadline) {
			return 0, os.ErrDeadlineExceeded
		}
		if len(p) == 0 {
			return 0, nil
		}
		h.cond.Wait()
	}
}

func (c *conn) Write(p []byte) (int, error) {
	h := c.w
	h.mu.Lock()
	if h.wclosed {
		h.mu.Unlock()
		return 0, io.ErrClosedPipe
	}
	if h.rclosed {
		h.mu.Unlock()
		return 0, &net.OpError{Op: "write", Net: "tcp", Err: errors.New("broken pipe")}
	}
	if !h.wdeadline.IsZero() && !time.Now().Before(h.wdeadline) {
		h.mu.Unlock()
		return 0, os.ErrDeadlineExceeded
	}
	if h.cap <= 0 {
		h.buf = append(h.buf, p...)
		h.cond.Broadcast()
		h.mu.Unlock()
		activity()
		return len(p), nil
	}
	// bounded: hand over what fits, wait for the reader, repeat
	written := 0
	for written < len(p) {
		for len(h.buf) >= h.cap {
			if h.rclosed || h.wclosed {
				h.mu.Unlock()
				return written, &net.OpError{Op: "write", Net: "tcp", Err: errors.New("broken pipe")}
			}
			if !h.wdeadline.IsZero() && !time.Now().Before(h.wdeadline) {
				h.mu.Unlock()
				return written, os.ErrDeadlineExceeded
			}
			h.cond.Wait()
		}
		n := h.cap - len(h.buf)
		if n > len(p)-written {
			n = len(p) - written
		}
		h.buf = append(h.buf, p[written:written+n]...)
		written += n
		h.cond.Broadcast()
	}
	h.mu.Unlock()
	activity()
	return written, nil
}

func (c *conn) Close() error {
	c.w.mu.Lock()
	c.w.wclosed = true
	c.w.cond.Broadcast()
	c.w.mu.Unlock()
	c.r.mu.Lock()
	c.r.rclosed = true
	if c.r.timer != nil {
		c.r.timer.Stop()
	}
	c.r.cond.Broadcast()
	c.r.mu.Unlock()
	activity()
	return nil
}

// CloseWrite half-closes the connection (the peer reads EOF).
func (c *conn) CloseWrite() error {
	c.w.mu.Lock()
	c.w.wclosed = true
	c.w.cond.Broadcast()
	c.w.mu.Unlock()
	activity()
	return nil
}

func (c *conn) LocalAddr() net.Addr  { return c.local }
func (c *conn) RemoteAddr() net.Addr { return c.remote }

func (c *conn) SetDeadline(t time.Time) error {
	c.SetReadDeadline(t)
	c.SetWriteDeadline(t)
	return nil
}

func (c *conn) SetReadDeadline(t time.Time) error {
	h := c.r
	h.mu.Lock()
	defer h.mu.Unlock()
	if h.timer != nil {
		h.timer.Stop()
		h.timer = nil
	}
	h.deadline = t
	if t.IsZero() {
		return nil
	}
	d := time.Until(t)
	if d <= 0 {
		h.cond.Broadcast()
		return nil
	}
	h.timer = time.AfterFunc(d, func() {
		h.mu.Lock()
		h.cond.Broadcast()
		h.mu.Unlock()
	})
	return nil
}

func (c *conn) SetWriteDeadline(t time.Time) error {
	h := c.w
	h.mu.Lock()
	defer h.mu.Unlock()
	if h.wtimer != nil {
		h.wtimer.Stop()
		h.wtimer = nil
	}
	h.wdeadline = t
	if t.IsZero() {
		return nil
	}
	if d := time.Until(t); d > 0 && h.cap > 0 {
		h.wtimer = time.AfterFunc(d, func() {
			h.mu.Lock()
			h.cond.Broadcast()
			h.mu.Unlock()
		})
	}
	return nil
}
