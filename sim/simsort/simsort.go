// Package simsort makes map iteration of the emulator deterministic in
// simulated builds: `for k, v := range m` is rewritten (at build time, through
// the overlay) into an iteration over Keys(m).
package simsort

import (
	"fmt"
	"sort"
)

// Keys returns the keys of m in a deterministic order.
func Keys[M ~map[K]V, K comparable, V any](m M) []K {
	keys := make([]K, 0, len(m))
	for k := range m {
		keys = append(keys, k)
	}
	if len(keys) < 2 {
		return keys
	}
	strs := make([]string, len(keys))
	for i, k := range keys {
		switch x := any(k).(type) {
		case string:
			strs[i] = x
		case int:
			strs[i] = fmt.Sprintf("%020d", x)
		default:
			strs[i] = fmt.Sprintf("%v", k)
		}
	}
	idx := make([]int, len(keys))
	for i := range idx {
		idx[i] = i
	}
	sort.SliceStable(idx, func(a, b int) bool { return strs[idx[a]] < strs[idx[b]] })
	out := make([]K, len(keys))
	for i, j := range idx {
		out[i] = keys[j]
	}
	return out
}
