package main

// Entry file of the simulation worker; injected into cmd/aws-lambda-rie through
// the build overlay (never committed to the repository).

import (
	"net/http"
	"os"
	"testing"

	"go.amzn.com/lambda/interop"
	"go.amzn.com/lambda/rapidcore"
	"go.amzn.com/verifsim/simworld"
)

func init() {
	simworld.FrontDoorHandler = func(sandbox rapidcore.LambdaInvokeAPI, bs interop.Bootstrap) http.HandlerFunc {
		return func(w http.ResponseWriter, r *http.Request) {
			InvokeHandler(w, r, sandbox, bs)
		}
	}
	simworld.NewBootstrap = func(cmd []string, cwd string) interop.Bootstrap {
		return NewSimpleBootstrap(cmd, cwd)
	}
	simworld.ResetFrontEnd = func() { initDone = false }
	// a front end that initialises eagerly (before the first invocation): the real InitHandler, then the flag
	simworld.EagerInit = func(sandbox rapidcore.LambdaInvokeAPI, timeoutSec int64, bs interop.Bootstrap) {
		InitHandler(sandbox, "$LATEST", timeoutSec, bs)
		initDone = true
	}
}

func TestVerifWorker(t *testing.T) {
	if os.Getenv("VERIF_WORKER") == "" {
		t.Skip("simulation worker: run through /verif/bin/verif")
	}
	simworld.WorkerMain(t)
}
