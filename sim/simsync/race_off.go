//go:build !race

package simsync

import "unsafe"

// RaceEnabled reports whether this worker was built with the race detector.
const RaceEnabled = false

func raceOff()                          {}
func raceOn()                           {}
func raceAcquire(p unsafe.Pointer)      {}
func raceRelease(p unsafe.Pointer)      {}
func raceReleaseMerge(p unsafe.Pointer) {}
