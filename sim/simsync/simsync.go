// Package simsync replaces "sync" in the emulator sources for simulated builds.
//
// Mutex, RWMutex and Once are owned by the run's Scheduler: Lock does not
// acquire anything, it parks the calling goroutine on a (bubble) channel and
// registers a Waiter; the simulation driver grants exactly one enabled waiter
// per scheduling step.  Cond, WaitGroup, Locker, Map and Pool are the real
// ones (real Cond.Wait / WaitGroup.Wait are durably blocking inside a
// testing/synctest bubble, and Cond.Wait re-acquires through L.Lock(), i.e.
// through the scheduler).
//
// Outside a run (no scheduler installed) the types degrade to plain locks.
package simsync

import (
	"runtime"
	"strings"
	"sync"
	"sync/atomic"
)

type (
	Cond      = sync.Cond
	WaitGroup = sync.WaitGroup
	Locker    = sync.Locker
	Map       = sync.Map
	Pool      = sync.Pool
)

func NewCond(l Locker) *Cond { return sync.NewCond(l) }

// gmu guards the state of every simulated lock and of the scheduler. It is a
// real mutex, held only for a few instructions and never while blocking.
var gmu sync.Mutex

var cur atomic.Pointer[Scheduler]

// Kind of a pending acquisition.
const (
	KLock  = 0
	KRLock = 1
)

// Waiter is a goroutine parked at a lock acquisition.
type Waiter struct {
	Seq   uint64 // arrival order within the run
	Sig   string // site signature: innermost caller function names
	Kind  int
	m     *Mutex
	rw    *RWMutex
	ch    chan struct{}
	Held  bool   // driver bookkeeping: deliberately kept parked
	Since int64  // driver bookkeeping
	Tag   string // driver bookkeeping
	MID   uint32 // id of the wanted lock (assigned at first use within the run)
	pcs   [40]uintptr
	npcs  int
}

// StackHas reports whether any frame of the parked goroutine (up to 40 frames above the lock call) is a function whose
// name contains sub. Resolved lazily: only classification of an already found violation asks.
func (w *Waiter) StackHas(sub string) bool {
	if w.npcs == 0 {
		return false
	}
	frames := runtime.CallersFrames(w.pcs[:w.npcs])
	for {
		f, more := frames.Next()
		if strings.Contains(f.Function, sub) {
			return true
		}
		if !more {
			return false
		}
	}
}

// Scheduler owns all lock acquisitions of one simulated run.
type Scheduler struct {
	seq     uint64
	parked  []*Waiter
	poke    chan struct{}
	Grants  uint64
	SigHits map[string]int
	stopped bool
	never   chan struct{}
	nextMID uint32
}

// NewScheduler must be called inside the bubble of the run.
func NewScheduler() *Scheduler {
	return &Scheduler{poke: make(chan struct{}, 1), SigHits: map[string]int{}, never: make(chan struct{})}
}

// Install makes s the scheduler of all simulated locks; nil uninstalls.
func Install(s *Scheduler) {
	cur.Store(s)
}

// Poke returns the channel on which the scheduler signals "somebody parked or
// a lock was freed" (and on which harness goroutines signal completions).
func (s *Scheduler) Poke() <-chan struct{} { return s.poke }

// Signal wakes the driver if it is sleeping.
func (s *Scheduler) Signal() {
	select {
	case s.poke <- struct{}{}:
	default:
	}
}

// Signal wakes the driver of the current run, if any.
func Signal() {
	if s := cur.Load(); s != nil {
		s.Signal()
	}
}

func (w *Waiter) enabledLocked() bool {
	if w.m != nil {
		return !w.m.held
	}
	if w.Kind == KRLock {
		return !w.rw.w
	}
	return !w.rw.w && w.rw.r == 0
}

// Parked returns all parked waiters in arrival order.
func (s *Scheduler) Parked() []*Waiter {
	gmu.Lock()
	defer gmu.Unlock()
	out := make([]*Waiter, len(s.parked))
	copy(out, s.parked)
	return out
}

// Enabled returns the parked waiters whose lock is free, in arrival order.
func (s *Scheduler) Enabled() []*Waiter {
	gmu.Lock()
	defer gmu.Unlock()
	var out []*Waiter
	for _, w := range s.parked {
		if w.enabledLocked() {
			out = append(out, w)
		}
	}
	return out
}

// Grant hands the lock to w and lets its goroutine continue. It reports false
// if w is not (or no longer) enabled.
func (s *Scheduler) Grant(w *Waiter) bool {
	gmu.Lock()
	idx := -1
	for i, p := range s.parked {
		if p == w {
			idx = i
			break
		}
	}
	if idx < 0 || !w.enabledLocked() {
		gmu.Unlock()
		return false
	}
	s.parked = append(s.parked[:idx], s.parked[idx+1:]...)
	if w.m != nil {
		w.m.held = true
	} else if w.Kind == KRLock {
		w.rw.r++
	} else {
		w.rw.w = true
	}
	s.Grants++
	gmu.Unlock()
	close(w.ch)
	return true
}

// Stop ends the run: every goroutine that reaches a lock from now on blocks for ever.
func (s *Scheduler) Stop() {
	gmu.Lock()
	s.stopped = true
	gmu.Unlock()
}

func (s *Scheduler) park(w *Waiter) {
	gmu.Lock()
	stopped := s.stopped
	gmu.Unlock()
	if stopped {
		<-s.never
	}
	w.npcs = runtime.Callers(2, w.pcs[:])
	w.Sig = signature()
	w.ch = make(chan struct{})
	gmu.Lock()
	if w.m != nil {
		if w.m.run != s {
			s.nextMID++
			w.m.id, w.m.run = s.nextMID, s
		}
		w.MID = w.m.id
	} else {
		if w.rw.run != s {
			s.nextMID++
			w.rw.id, w.rw.run = s.nextMID, s
		}
		w.MID = w.rw.id
	}
	s.seq++
	w.Seq = s.seq
	s.parked = append(s.parked, w)
	s.SigHits[w.Sig]++
	gmu.Unlock()
	s.Signal()
	<-w.ch
}

// ---- Mutex ----

type Mutex struct {
	held bool
	id   uint32
	run  *Scheduler
}

func (m *Mutex) Lock() {
	if s := cur.Load(); s != nil {
		s.park(&Waiter{m: m, Kind: KLock})
		return
	}
	for {
		gmu.Lock()
		if !m.held {
			m.held = true
			gmu.Unlock()
			return
		}
		gmu.Unlock()
		runtime.Gosched()
	}
}

func (m *Mutex) TryLock() bool {
	gmu.Lock()
	defer gmu.Unlock()
	if m.held {
		return false
	}
	m.held = true
	return true
}

func (m *Mutex) Unlock() {
	gmu.Lock()
	if !m.held {
		gmu.Unlock()
		panic("simsync: unlock of unlocked mutex")
	}
	m.held = false
	gmu.Unlock()
	Signal()
}

// ---- RWMutex ----

type RWMutex struct {
	w   bool
	r   int
	id  uint32
	run *Scheduler
}

func (rw *RWMutex) Lock() {
	if s := cur.Load(); s != nil {
		s.park(&Waiter{rw: rw, Kind: KLock})
		return
	}
	for {
		gmu.Lock()
		if !rw.w && rw.r == 0 {
			rw.w = true
			gmu.Unlock()
			return
		}
		gmu.Unlock()
		runtime.Gosched()
	}
}

func (rw *RWMutex) Unlock() {
	gmu.Lock()
	if !rw.w {
		gmu.Unlock()
		panic("simsync: Unlock of unlocked RWMutex")
	}
	rw.w = false
	gmu.Unlock()
	Signal()
}

func (rw *RWMutex) RLock() {
	if s := cur.Load(); s != nil {
		s.park(&Waiter{rw: rw, Kind: KRLock})
		return
	}
	for {
		gmu.Lock()
		if !rw.w {
			rw.r++
			gmu.Unlock()
			return
		}
		gmu.Unlock()
		runtime.Gosched()
	}
}

func (rw *RWMutex) RUnlock() {
	gmu.Lock()
	if rw.r <= 0 {
		gmu.Unlock()
		panic("simsync: RUnlock of unlocked RWMutex")
	}
	rw.r--
	gmu.Unlock()
	Signal()
}

func (rw *RWMutex) RLocker() Locker { return (*rlocker)(rw) }

type rlocker RWMutex

func (r *rlocker) Lock()   { (*RWMutex)(r).RLock() }
func (r *rlocker) Unlock() { (*RWMutex)(r).RUnlock() }

// ---- Once ----

type Once struct {
	m    Mutex
	done bool
}

func (o *Once) Do(f func()) {
	o.m.Lock()
	defer o.m.Unlock()
	if !o.done {
		defer func() { o.done = true }()
		f()
	}
}

// ---- site signatures ----

var sigCache sync.Map // [8]uintptr -> string

func signature() string {
	var pcs [12]uintptr
	n := runtime.Callers(3, pcs[:])
	var key [12]uintptr
	copy(key[:], pcs[:n])
	if v, ok := sigCache.Load(key); ok {
		return v.(string)
	}
	frames := runtime.CallersFrames(pcs[:n])
	var names []string
	for {
		f, more := frames.Next()
		fn := f.Function
		if fn != "" && !strings.Contains(fn, "verifsim/simsync.") && !strings.HasPrefix(fn, "sync.") {
			// strip module prefix for brevity
			fn = strings.TrimPrefix(fn, "go.amzn.com/")
			names = append(names, fn)
			if len(names) == 3 {
				break
			}
		}
		if !more {
			break
		}
	}
	s := strings.Join(names, "<")
	sigCache.Store(key, s)
	return s
}
