// Package simsync replaces "sync" in the emulator sources for simulated builds.
//
// Mutex, RWMutex and Once are owned by the run's Scheduler: Lock does not
// acquire anything, it parks the calling goroutine on a (bubble) channel and
// registers a Waiter; the simulation driver grants exactly one enabled waiter
// per scheduling step.  WaitGroup, Locker, Map and Pool are the real ones, Cond
// wraps the real one (real Cond.Wait / WaitGroup.Wait are durably blocking inside a
// testing/synctest bubble, and Cond.Wait re-acquires through L.Lock(), i.e.
// through the scheduler).
//
// Outside a run (no scheduler installed) the types degrade to plain locks.
package simsync

import (
	"runtime"
	"strings"
	"sync"
	"sync/atomic"
	"unsafe"
)

type (
	WaitGroup = sync.WaitGroup
	Locker    = sync.Locker
	Map       = sync.Map
	Pool      = sync.Pool
)

// Cond is sync.Cond with one more scheduling point: Wait parks the caller (still holding L) before it enters the
// real Wait, so that whatever does not need L - a wake-up sent without the lock - can be scheduled between the
// caller's test of its condition and its registration as a waiter. With a correct protocol (condition changed and
// signalled under L) nothing can run in that window.
type Cond struct {
	L Locker
	c *sync.Cond
}

//go:norace
func NewCond(l Locker) *Cond { return &Cond{L: l, c: sync.NewCond(l)} }

//go:norace
func (c *Cond) Wait() {
	Yield()
	c.c.Wait()
}

//go:norace
func (c *Cond) Signal() { c.c.Signal() }

//go:norace
func (c *Cond) Broadcast() { c.c.Broadcast() }

// gmu guards the state of every simulated lock and of the scheduler. It is a
// real mutex, held only for a few instructions and never while blocking.
var gmu sync.Mutex

var cur atomic.Pointer[Scheduler]

//go:norace
func glock() {
	raceOff()
	gmu.Lock()
}

//go:norace
func gunlock() {
	gmu.Unlock()
	raceOn()
}

// Kind of a pending acquisition.
const (
	KLock  = 0
	KRLock = 1
)

// Waiter is a goroutine parked at a lock acquisition.
type Waiter struct {
	Seq   uint64 // arrival order within the run
	Sig   string // site signature: innermost caller function names
	Kind  int
	m     *Mutex
	rw    *RWMutex
	ch    chan struct{}
	Held  bool   // driver bookkeeping: deliberately kept parked
	Since int64  // driver bookkeeping
	Tag   string // driver bookkeeping
	MID   uint32 // id of the wanted lock (assigned at first use within the run)
	// PostUnlock: not a lock acquisition but the scheduling point that follows a release (unlock-yield pass)
	PostUnlock bool
	// Explicit: the release was an Unlock / RUnlock statement in the middle of a function (not a deferred one), i.e.
	// the function goes on after it - the overlay build puts UnlockPoint() behind every such statement
	Explicit bool
	pcs      [40]uintptr
	npcs     int
}

// StackHas reports whether any frame of the parked goroutine (up to 40 frames above the lock call) is a function whose
// name contains sub. Resolved lazily: only classification of an already found violation asks.
//
//go:norace
func (w *Waiter) StackHas(sub string) bool {
	if w.npcs == 0 {
		return false
	}
	frames := runtime.CallersFrames(w.pcs[:w.npcs])
	for {
		f, more := frames.Next()
		if strings.Contains(f.Function, sub) {
			return true
		}
		if !more {
			return false
		}
	}
}

// Scheduler owns all lock acquisitions of one simulated run.
type Scheduler struct {
	seq     uint64
	parked  []*Waiter
	poke    chan struct{}
	Grants  uint64
	SigHits map[string]int
	stopped bool
	never   chan struct{}
	nextMID uint32
	// UnlockYield (unlock-yield pass, DESIGN 11.17): every release of a simulated lock is followed by a scheduling
	// point of the releasing goroutine, so that the step after an unlock can be separated from the critical section
	// by whatever else is runnable (and held there by the driver like at any other site). Set before the run starts.
	UnlockYield bool
	// PUHits counts the parks at explicit unlock points per site signature (unlock-yield pass only)
	PUHits map[string]int
}

// NewScheduler must be called inside the bubble of the run.
//
//go:norace
func NewScheduler() *Scheduler {
	return &Scheduler{poke: make(chan struct{}, 1), SigHits: map[string]int{}, never: make(chan struct{})}
}

// Install makes s the scheduler of all simulated locks; nil uninstalls.
//
//go:norace
func Install(s *Scheduler) {
	cur.Store(s)
}

// Poke returns the channel on which the scheduler signals "somebody parked or
// a lock was freed" (and on which harness goroutines signal completions).
//
//go:norace
func (s *Scheduler) Poke() <-chan struct{} { return s.poke }

// Signal wakes the driver if it is sleeping.
//
//go:norace
func (s *Scheduler) Signal() {
	raceOff()
	select {
	case s.poke <- struct{}{}:
	default:
	}
	raceOn()
}

// Signal wakes the driver of the current run, if any.
//
//go:norace
func Signal() {
	if s := cur.Load(); s != nil {
		s.Signal()
	}
}

//go:norace
func (w *Waiter) enabledLocked() bool {
	if w.m != nil {
		return !w.m.held
	}
	if w.Kind == KRLock {
		return !w.rw.w
	}
	return !w.rw.w && w.rw.r == 0
}

// Parked returns all parked waiters in arrival order.
//
//go:norace
func (s *Scheduler) Parked() []*Waiter {
	glock()
	defer gunlock()
	out := make([]*Waiter, len(s.parked))
	copy(out, s.parked)
	return out
}

// Enabled returns the parked waiters whose lock is free, in arrival order.
//
//go:norace
func (s *Scheduler) Enabled() []*Waiter {
	glock()
	defer gunlock()
	var out []*Waiter
	for _, w := range s.parked {
		if w.enabledLocked() {
			out = append(out, w)
		}
	}
	return out
}

// Grant hands the lock to w and lets its goroutine continue. It reports false
// if w is not (or no longer) enabled.
//
//go:norace
func (s *Scheduler) Grant(w *Waiter) bool {
	glock()
	idx := -1
	for i, p := range s.parked {
		if p == w {
			idx = i
			break
		}
	}
	if idx < 0 || !w.enabledLocked() {
		gunlock()
		return false
	}
	s.parked = append(s.parked[:idx], s.parked[idx+1:]...)
	if w.m != nil {
		w.m.held = true
	} else if w.Kind == KRLock {
		w.rw.r++
	} else {
		w.rw.w = true
	}
	s.Grants++
	gunlock()
	raceOff()
	close(w.ch)
	raceOn()
	return true
}

// Stop ends the run: every goroutine that reaches a lock from now on blocks for ever.
//
//go:norace
func (s *Scheduler) Stop() {
	glock()
	s.stopped = true
	gunlock()
}

//go:norace
func (s *Scheduler) park(w *Waiter) {
	glock()
	stopped := s.stopped
	gunlock()
	if stopped {
		<-s.never
	}
	w.npcs = runtime.Callers(2, w.pcs[:])
	w.Sig = signature()
	w.ch = make(chan struct{})
	glock()
	if w.m != nil {
		if w.m.run != s {
			s.nextMID++
			w.m.id, w.m.run = s.nextMID, s
		}
		w.MID = w.m.id
	} else {
		if w.rw.run != s {
			s.nextMID++
			w.rw.id, w.rw.run = s.nextMID, s
		}
		w.MID = w.rw.id
	}
	s.seq++
	w.Seq = s.seq
	s.parked = append(s.parked, w)
	s.SigHits[w.Sig]++
	if w.Explicit {
		if s.PUHits == nil {
			s.PUHits = map[string]int{}
		}
		s.PUHits[w.Sig]++
	}
	gunlock()
	s.Signal()
	raceOff()
	<-w.ch
	raceOn()
	// the happens-before edges of the lock just obtained, as package sync declares them
	if w.m != nil {
		raceAcquire(unsafe.Pointer(w.m))
	} else {
		raceAcquire(unsafe.Pointer(&w.rw.r))
		if w.Kind == KLock {
			raceAcquire(unsafe.Pointer(&w.rw.w))
		}
	}
}

// ---- Mutex ----

type Mutex struct {
	held bool
	id   uint32
	run  *Scheduler
}

//go:norace
func (m *Mutex) Lock() {
	if s := cur.Load(); s != nil {
		s.park(&Waiter{m: m, Kind: KLock})
		return
	}
	for {
		glock()
		if !m.held {
			m.held = true
			gunlock()
			return
		}
		gunlock()
		runtime.Gosched()
	}
}

//go:norace
func (m *Mutex) TryLock() bool {
	glock()
	defer gunlock()
	if m.held {
		return false
	}
	m.held = true
	return true
}

//go:norace
func (m *Mutex) Unlock() {
	raceRelease(unsafe.Pointer(m))
	glock()
	if !m.held {
		gunlock()
		panic("simsync: unlock of unlocked mutex")
	}
	m.held = false
	gunlock()
	Signal()
	afterUnlock()
}

// ---- RWMutex ----

type RWMutex struct {
	w   bool
	r   int
	id  uint32
	run *Scheduler
}

//go:norace
func (rw *RWMutex) Lock() {
	if s := cur.Load(); s != nil {
		s.park(&Waiter{rw: rw, Kind: KLock})
		return
	}
	for {
		glock()
		if !rw.w && rw.r == 0 {
			rw.w = true
			gunlock()
			return
		}
		gunlock()
		runtime.Gosched()
	}
}

//go:norace
func (rw *RWMutex) Unlock() {
	raceRelease(unsafe.Pointer(&rw.r))
	glock()
	if !rw.w {
		gunlock()
		panic("simsync: Unlock of unlocked RWMutex")
	}
	rw.w = false
	gunlock()
	Signal()
	afterUnlock()
}

//go:norace
func (rw *RWMutex) RLock() {
	if s := cur.Load(); s != nil {
		s.park(&Waiter{rw: rw, Kind: KRLock})
		return
	}
	for {
		glock()
		if !rw.w {
			rw.r++
			gunlock()
			return
		}
		gunlock()
		runtime.Gosched()
	}
}

//go:norace
func (rw *RWMutex) RUnlock() {
	raceReleaseMerge(unsafe.Pointer(&rw.w))
	glock()
	if rw.r <= 0 {
		gunlock()
		panic("simsync: RUnlock of unlocked RWMutex")
	}
	rw.r--
	gunlock()
	Signal()
	afterUnlock()
}

//go:norace
func (rw *RWMutex) RLocker() Locker { return (*rlocker)(rw) }

type rlocker RWMutex

//go:norace
func (r *rlocker) Lock() { (*RWMutex)(r).RLock() }

//go:norace
func (r *rlocker) Unlock() { (*RWMutex)(r).RUnlock() }

// ---- Once ----

type Once struct {
	m    Mutex
	done bool
}

//go:norace
func (o *Once) Do(f func()) {
	o.m.Lock()
	defer o.m.Unlock()
	if !o.done {
		defer func() { o.done = true }()
		f()
	}
}

// ---- site signatures ----

var sigCache sync.Map // [8]uintptr -> string

//go:norace
func signature() string {
	raceOff()
	defer raceOn()
	var pcs [12]uintptr
	n := runtime.Callers(3, pcs[:])
	var key [12]uintptr
	copy(key[:], pcs[:n])
	if v, ok := sigCache.Load(key); ok {
		return v.(string)
	}
	frames := runtime.CallersFrames(pcs[:n])
	var names []string
	for {
		f, more := frames.Next()
		fn := f.Function
		if fn != "" && !strings.Contains(fn, "verifsim/simsync.") && !strings.HasPrefix(fn, "sync.") {
			// strip module prefix for brevity
			fn = strings.TrimPrefix(fn, "go.amzn.com/")
			names = append(names, fn)
			if len(names) == 3 {
				break
			}
		}
		if !more {
			break
		}
	}
	s := strings.Join(names, "<")
	sigCache.Store(key, s)
	return s
}

// Yield is a scheduling point without a lock: the caller parks like at a lock acquisition (of a lock nobody else
// knows) and goes on when the driver picks it. The overlay build inserts it after every go statement of the
// emulator, so that the order of a freshly started goroutine and its creator is the simulation's decision.
//
//go:norace
func Yield() {
	if cur.Load() == nil {
		return
	}
	yieldNow(false, false)
}

// UnlockPoint is put behind every Unlock / RUnlock statement of the emulator by the overlay build (deferred releases
// are not statements of their own and get none). Outside the unlock-yield pass it does nothing.
//
//go:norace
func UnlockPoint() {
	if s := cur.Load(); s != nil && s.UnlockYield {
		yieldNow(true, true)
	}
}

//go:norace
func yieldNow(postUnlock, explicit bool) {
	s := cur.Load()
	if s == nil {
		return
	}
	var m Mutex
	s.park(&Waiter{m: &m, Kind: KLock, PostUnlock: postUnlock, Explicit: explicit})
	glock()
	m.held = false
	gunlock()
	Signal()
}

// afterUnlock is the scheduling point that follows every release in the unlock-yield pass.
//
//go:norace
func afterUnlock() {
	if s := cur.Load(); s != nil && s.UnlockYield {
		yieldNow(true, false)
	}
}
