//go:build race

package simsync

import (
	"runtime"
	"unsafe"
)

// RaceEnabled reports whether this worker was built with the race detector.
const RaceEnabled = true

// The simulation's own machinery (one global mutex, the poke channel, the channel a parked goroutine waits on) would
// order every pair of lock operations of the run and hide every data race of the emulator from the detector. Its
// synchronisation events are therefore ignored, and the happens-before edges of the simulated locks are declared
// explicitly, exactly as package sync declares them for the real ones.

func raceOff()                          { runtime.RaceDisable() }
func raceOn()                           { runtime.RaceEnable() }
func raceAcquire(p unsafe.Pointer)      { runtime.RaceAcquire(p) }
func raceRelease(p unsafe.Pointer)      { runtime.RaceRelease(p) }
func raceReleaseMerge(p unsafe.Pointer) { runtime.RaceReleaseMerge(p) }
