// Package simkernel is the simulated kernel under lambda/supervisor/local_supervisor.go in simulated builds:
// process table, process groups, signals, wait statuses, pid allocation with reuse. os/exec and syscall are
// replaced in that one file by the façades simkernel/simexec and simkernel/simsyscall.
//
// Every system call takes the kernel lock, which is a scheduler-owned mutex: each system call of the
// supervisor is therefore a scheduling point the simulation driver decides. What processes do (exit, react to
// a signal, fork) is decided by the scenario through the OnSpawn / OnSignal callbacks and by driver-side calls
// (Die, Fork), which run only at quiescent points and therefore do not take the lock.
package simkernel

import (
	"errors"
	"fmt"
	"sort"

	"go.amzn.com/verifsim/simsync"
)

type Signal int

const (
	SIGABRT Signal = 6
	SIGKILL Signal = 9
	SIGSEGV Signal = 11
	SIGTERM Signal = 15
)

// WaitStatus uses the Linux encoding: low 7 bits = terminating signal (0 = exited), bits 8-15 = exit code.
type WaitStatus uint32

func Exited(code int) WaitStatus    { return WaitStatus((code & 0xff) << 8) }
func Signaled(s Signal) WaitStatus  { return WaitStatus(int(s) & 0x7f) }
func (w WaitStatus) Exited() bool   { return w&0x7f == 0 }
func (w WaitStatus) Signaled() bool { return w&0x7f != 0 }
func (w WaitStatus) ExitStatus() int {
	if !w.Exited() {
		return -1
	}
	return int(w>>8) & 0xff
}
func (w WaitStatus) Signal() Signal {
	if !w.Signaled() {
		return -1
	}
	return Signal(w & 0x7f)
}
func (w WaitStatus) String() string {
	if w.Exited() {
		return fmt.Sprintf("exit(%d)", w.ExitStatus())
	}
	return fmt.Sprintf("signal(%d)", int(w.Signal()))
}

var (
	ESRCH  = errors.New("no such process")
	ENOENT = errors.New("no such file or directory")
	EAGAIN = errors.New("resource temporarily unavailable")
)

const (
	Running = iota
	Zombie  // dead, not yet waited for
	Gone    // reaped
)

type SigRec struct {
	Sig    Signal
	Seq    int // kernel event sequence number
	At     int64
	Target int  // the pid argument of the kill call (negative = group)
	Live   bool // the process was running when the signal arrived
}

type Proc struct {
	Pid, Pgid, PPid int
	Path            string
	Args            []string
	Env             []string
	Dir             string
	Setpgid         bool
	State           int
	Status          WaitStatus
	BornSeq         int
	DiedSeq         int
	ReapedSeq       int
	BornAt          int64 // kernel clock readings
	DiedAt          int64
	ReapedAt        int64
	Sigs            []SigRec
	Data            interface{} // the scenario's plan for this process
	exited          chan struct{}

	// stdout/stderr plumbing as os/exec does it: when the supervisor hands a writer that is not a file, the
	// child writes into a pipe that every descendant inherits; Wait returns only once all of them have closed
	// it (or WaitDelay has passed)
	Piped        bool
	PipeOwner    *Proc         // for a descendant: whose pipe it holds (nil = none)
	pipeChange   chan struct{} // closed and renewed whenever a holder of this process's pipe goes away
	WaitDoneSeq  int           // the supervisor's Wait on this process has returned (kernel sequence number / clock)
	WaitDoneAt   int64
	WaitDoneStep int
	PipesGoneAt  int64 // kernel clock when the last holder (or the process itself) went away
	PipesGoneSeq int
}

func (p *Proc) String() string {
	return fmt.Sprintf("pid %d (pgid %d, %s)", p.Pid, p.Pgid, p.Path)
}

type Kernel struct {
	Mu       simsync.Mutex
	All      []*Proc       // every process ever created, in creation order
	byPid    map[int]*Proc // processes whose pid is still in use (running or zombie)
	PidMin   int
	PidMax   int // pids are allocated round-robin in [PidMin, PidMax]
	nextPid  int
	Seq      int                       // event sequence number (system calls and driver-side events)
	OnSpawn  func(p *Proc) error       // scenario: attach the plan, or fail the start
	OnSignal func(p *Proc, sig Signal) // scenario: schedule the consequences (p is running)
	Logf     func(format string, a ...interface{})
	Clock    func() int64
	Step     func() int
	Syscalls map[string]int
}

// K is the kernel of the current run.
var K *Kernel

func New() *Kernel {
	return &Kernel{byPid: map[int]*Proc{}, PidMin: 100, PidMax: 32767, nextPid: 100, Syscalls: map[string]int{}}
}

func (k *Kernel) now() int64 {
	if k.Clock != nil {
		return k.Clock()
	}
	return 0
}

func (k *Kernel) logf(format string, a ...interface{}) {
	if k.Logf != nil {
		k.Logf(format, a...)
	}
}

func (k *Kernel) pidFree(pid int) bool {
	if _, used := k.byPid[pid]; used {
		return false
	}
	// a pid stays allocated while it is the process-group id of a living process
	for _, p := range k.byPid {
		if p.Pgid == pid {
			return false
		}
	}
	return true
}

func (k *Kernel) allocPid() (int, error) {
	n := k.PidMax - k.PidMin + 1
	for i := 0; i < n; i++ {
		pid := k.nextPid
		k.nextPid++
		if k.nextPid > k.PidMax {
			k.nextPid = k.PidMin
		}
		if k.pidFree(pid) {
			return pid, nil
		}
	}
	return 0, EAGAIN
}

func (k *Kernel) create(parent *Proc, path string, args, env []string, dir string, setpgid bool) (*Proc, error) {
	pid, err := k.allocPid()
	if err != nil {
		return nil, err
	}
	k.Seq++
	p := &Proc{Pid: pid, Pgid: 1, PPid: 1, Path: path, Args: args, Env: env, Dir: dir, Setpgid: setpgid, BornSeq: k.Seq, BornAt: k.now(), exited: make(chan struct{}), pipeChange: make(chan struct{})}
	if parent != nil {
		p.PPid, p.Pgid = parent.Pid, parent.Pgid
	}
	if setpgid {
		p.Pgid = pid
	}
	k.All = append(k.All, p)
	k.byPid[pid] = p
	return p, nil
}

// Spawn is fork+exec by the supervisor (system call).
func (k *Kernel) Spawn(path string, args, env []string, dir string, setpgid, piped bool) (*Proc, error) {
	k.Mu.Lock()
	defer k.Mu.Unlock()
	k.Syscalls["spawn"]++
	p, err := k.create(nil, path, args, env, dir, setpgid)
	if err != nil {
		k.logf("kernel: spawn %s failed: %v", path, err)
		return nil, err
	}
	p.Piped = piped
	if k.OnSpawn != nil {
		if err := k.OnSpawn(p); err != nil {
			// the exec failed: no process
			k.All = k.All[:len(k.All)-1]
			delete(k.byPid, p.Pid)
			k.logf("kernel: spawn %s failed: %v", path, err)
			return nil, err
		}
	}
	k.logf("kernel: spawned %v", p)
	return p, nil
}

// Fork creates a child of p in p's process group (driver side or from OnSpawn; no lock).
func (k *Kernel) Fork(parent *Proc, path string, inheritsPipe bool) (*Proc, error) {
	p, err := k.create(parent, path, nil, nil, "", false)
	if err == nil {
		if inheritsPipe && parent.Piped {
			p.PipeOwner = parent
		}
		k.logf("kernel: %v forked %v (holds the parent's output pipe: %v)", parent, p, p.PipeOwner != nil)
	}
	return p, err
}

// PipeHolders returns the living processes that still hold p's output pipe (driver side / under the lock).
func (k *Kernel) PipeHolders(p *Proc) int {
	n := 0
	for _, q := range k.All {
		if q.PipeOwner == p && q.State == Running {
			n++
		}
	}
	return n
}

// Terminated reports whether Wait on p can return: p is dead and nobody holds its output pipe any more.
func (k *Kernel) Terminated(p *Proc) bool {
	return p.State != Running && (!p.Piped || k.PipeHolders(p) == 0)
}

// Die ends a running process (driver side; no lock). Children of the supervisor stay zombies until waited for,
// other processes are reaped by init at once.
func (k *Kernel) Die(p *Proc, st WaitStatus) bool {
	if p.State != Running {
		return false
	}
	k.Seq++
	p.Status, p.DiedSeq, p.DiedAt = st, k.Seq, k.now()
	if p.PPid == 1 && p.Setpgid {
		p.State = Zombie
	} else {
		p.State, p.ReapedSeq, p.ReapedAt = Gone, k.Seq, k.now()
		delete(k.byPid, p.Pid)
	}
	k.logf("kernel: %v died: %v", p, st)
	close(p.exited)
	for _, owner := range []*Proc{p, p.PipeOwner} {
		if owner != nil && owner.Piped {
			if k.Terminated(owner) && owner.PipesGoneSeq == 0 {
				owner.PipesGoneAt, owner.PipesGoneSeq = k.now(), k.Seq
			}
			close(owner.pipeChange)
			owner.pipeChange = make(chan struct{})
		}
	}
	if !p.Piped && p.PipesGoneSeq == 0 {
		p.PipesGoneAt, p.PipesGoneSeq = k.now(), k.Seq
	}
	return true
}

// Wait blocks until p has died, reaps it, and - if its output goes through a pipe - until every process holding
// that pipe is gone or waitDelay (> 0) has passed since the death. It reports the status and whether the delay
// expired first (os/exec's ErrWaitDelay).
func (k *Kernel) Wait(p *Proc, waitDelay int64, after func(ns int64) <-chan struct{}) (WaitStatus, bool) {
	<-p.exited
	k.Mu.Lock()
	k.Syscalls["wait"]++
	if p.State == Zombie {
		k.Seq++
		p.State, p.ReapedSeq, p.ReapedAt = Gone, k.Seq, k.now()
		delete(k.byPid, p.Pid)
		k.logf("kernel: %v reaped", p)
	}
	k.Mu.Unlock()
	defer func() {
		p.WaitDoneSeq, p.WaitDoneAt = k.Seq, k.now()
		if k.Step != nil {
			p.WaitDoneStep = k.Step()
		}
	}()
	if !p.Piped {
		return p.Status, false
	}
	var expired <-chan struct{}
	if waitDelay > 0 {
		expired = after(waitDelay)
	}
	for {
		k.Mu.Lock()
		n, ch := k.PipeHolders(p), p.pipeChange
		k.Mu.Unlock()
		if n == 0 {
			return p.Status, false
		}
		select {
		case <-ch:
		case <-expired:
			k.logf("kernel: wait delay for the output pipe of %v expired (%d holders left)", p, n)
			return p.Status, true
		}
	}
}

func (k *Kernel) Getpgid(pid int) (int, error) {
	k.Mu.Lock()
	defer k.Mu.Unlock()
	k.Syscalls["getpgid"]++
	p, ok := k.byPid[pid]
	if !ok {
		return -1, ESRCH
	}
	return p.Pgid, nil
}

// Kill is kill(2): pid > 0 one process, pid < 0 the process group -pid.
func (k *Kernel) Kill(pid int, sig Signal) error {
	k.Mu.Lock()
	defer k.Mu.Unlock()
	k.Syscalls["kill"]++
	k.Seq++
	var targets []*Proc
	if pid > 0 {
		if p, ok := k.byPid[pid]; ok {
			targets = append(targets, p)
		}
	} else if pid < -1 {
		for _, p := range k.byPid {
			if p.Pgid == -pid {
				targets = append(targets, p)
			}
		}
		sort.Slice(targets, func(i, j int) bool { return targets[i].BornSeq < targets[j].BornSeq })
	}
	if len(targets) == 0 {
		k.logf("kernel: kill(%d, %d): ESRCH", pid, int(sig))
		return ESRCH
	}
	for _, p := range targets {
		live := p.State == Running
		p.Sigs = append(p.Sigs, SigRec{Sig: sig, Seq: k.Seq, At: k.now(), Target: pid, Live: live})
		k.logf("kernel: kill(%d, %d) -> %v live=%v", pid, int(sig), p, live)
		if live && k.OnSignal != nil {
			k.OnSignal(p, sig)
		}
	}
	return nil
}

// Lookup returns the process currently owning pid (driver side).
func (k *Kernel) Lookup(pid int) *Proc { return k.byPid[pid] }

// Group returns the running members of a process group in creation order (driver side).
func (k *Kernel) Group(pgid int) []*Proc {
	var out []*Proc
	for _, p := range k.All {
		if p.Pgid == pgid && p.State == Running {
			out = append(out, p)
		}
	}
	return out
}
