// Package simsyscall stands in for "syscall" in lambda/supervisor/local_supervisor.go in simulated builds.
package simsyscall

import "go.amzn.com/verifsim/simkernel"

type Signal = simkernel.Signal
type WaitStatus = simkernel.WaitStatus

const (
	SIGKILL = simkernel.SIGKILL
	SIGTERM = simkernel.SIGTERM
)

type SysProcAttr struct {
	Setpgid bool
}

func Getpgid(pid int) (int, error)   { return simkernel.K.Getpgid(pid) }
func Kill(pid int, sig Signal) error { return simkernel.K.Kill(pid, sig) }
