// Package simexec stands in for "os/exec" in lambda/supervisor/local_supervisor.go in simulated builds.
package simexec

import (
	"errors"
	"io"
	"os"
	"time"

	"go.amzn.com/verifsim/simkernel"
	"go.amzn.com/verifsim/simkernel/simsyscall"
)

type Process struct {
	Pid int
}

type Cmd struct {
	Path        string
	Args        []string
	Env         []string
	Dir         string
	ExtraFiles  []*os.File
	Stdout      io.Writer
	Stderr      io.Writer
	SysProcAttr *simsyscall.SysProcAttr
	Process     *Process
	WaitDelay   time.Duration

	proc   *simkernel.Proc
	waited bool
}

func Command(name string, arg ...string) *Cmd {
	return &Cmd{Path: name, Args: append([]string{name}, arg...)}
}

func (c *Cmd) Start() error {
	if c.Process != nil {
		return errors.New("exec: already started")
	}
	p, err := simkernel.K.Spawn(c.Path, c.Args, c.Env, c.Dir, c.SysProcAttr != nil && c.SysProcAttr.Setpgid, piped(c.Stdout) || piped(c.Stderr))
	if err != nil {
		return err
	}
	c.proc = p
	c.Process = &Process{Pid: p.Pid}
	return nil
}

// ExitError reports an unsuccessful exit, as os/exec's does.
type ExitError struct {
	status simkernel.WaitStatus
}

func (e *ExitError) Error() string    { return e.status.String() }
func (e *ExitError) Sys() interface{} { return e.status }

func (c *Cmd) Wait() error {
	if c.proc == nil {
		return errors.New("exec: not started")
	}
	if c.waited {
		return errors.New("exec: Wait was already called")
	}
	c.waited = true
	st, delayed := simkernel.K.Wait(c.proc, int64(c.WaitDelay), func(ns int64) <-chan struct{} {
		ch := make(chan struct{})
		time.AfterFunc(time.Duration(ns), func() { close(ch) })
		return ch
	})
	if st.Exited() && st.ExitStatus() == 0 {
		if delayed {
			return ErrWaitDelay
		}
		return nil
	}
	return &ExitError{status: st}
}

// ErrWaitDelay is returned by Wait if the process exits with a successful status code but its output pipes are
// not closed before the command's WaitDelay expires.
var ErrWaitDelay = errors.New("exec: WaitDelay expired before I/O complete")

// piped reports whether os/exec would connect the writer through a pipe and a copying goroutine.
func piped(w io.Writer) bool {
	if w == nil {
		return false
	}
	_, isFile := w.(*os.File)
	return !isFile
}
