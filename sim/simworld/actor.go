package simworld

import (
	"encoding/json"
	"fmt"
	"strconv"
	"strings"
	"time"
)

// Delivery is an event received by a party from a `next` call.
type Delivery struct {
	Step    int
	At      time.Duration
	ReqID   string
	Type    string // runtime: "invoke"; extension: INVOKE | SHUTDOWN
	Body    []byte
	Hdr     map[string]string
	Inv     *Invocation
	Ev      ExtEvent
	CallSeq int
}

// ExtEvent is the JSON body of an extension event.
type ExtEvent struct {
	EventType          string `json:"eventType"`
	DeadlineMs         int64  `json:"deadlineMs"`
	RequestID          string `json:"requestId"`
	InvokedFunctionArn string `json:"invokedFunctionArn"`
	Tracing            *struct {
		Type  string `json:"type"`
		Value string `json:"value"`
	} `json:"tracing"`
	ShutdownReason string `json:"shutdownReason"`
}

// Actor is the protocol-level behaviour of a runtime or an extension; it lives
// in a Proc (internal extensions live in the runtime's Proc).
type Actor struct {
	w    *World
	P    *Proc
	Conn *Conn
	Who  string
	IsRT bool
	UA   string

	Cur       *Call // outstanding (or last) call on Conn
	Calls     []*Call
	SideCalls []*Call
	absorbed  map[*Call]bool

	// runtime side
	Deliveries []Delivery
	CurReqID   string // id delivered and not yet answered
	CurInv     *Invocation
	Polls      int
	ConnErrs   int // calls that ended with a connection error while the process was alive
	Refused    int // submissions for the delivered id that were refused
	FirstPoll  int // step of the first next call (0 = none)

	// extension side
	ExtName    string
	RegName    string   // name it registered under (accepted, last)
	Regs       []RegRec // every accepted registration issued by this actor
	Internal   bool
	ExtID      string
	Subs       []string
	Registered bool
	RegStep    int
	RegResp    map[string]interface{}
	st         string

	pendingSubs []string
}

// NewActor creates an actor living in process p with its own connection.
func (w *World) NewActor(p *Proc, who string, isRT bool) *Actor {
	a := &Actor{w: w, P: p, Who: who, IsRT: isRT, absorbed: map[*Call]bool{}, st: "started"}
	a.Conn = w.r.Dial(RapiAddr)
	p.Attach(a.Conn)
	if p.A == nil && (isRT == p.IsRT) {
		p.A = a
	}
	w.actors = append(w.actors, a)
	return a
}

// State is the harness-side protocol state name.
func (a *Actor) State() string { return a.st }

// Busy reports whether the actor has an outstanding call.
func (a *Actor) Busy() bool { return a.Cur != nil && a.Cur.Pending() }

func (a *Actor) start(tag, method, path string, hdr map[string]string, body []byte) *Call {
	r := a.w.r
	if a.Busy() {
		r.Troublef("%s: call started while another is outstanding", a.Who)
	}
	r.NextStep()
	a.Cur = a.Conn.Start(a.Who, method, path, hdr, body)
	a.Cur.Tag = tag
	a.Calls = append(a.Calls, a.Cur)
	r.Settle()
	return a.Cur
}

// ---- runtime API ----

const rtBase = "/2018-06-01/runtime"

func (a *Actor) Next() *Call {
	a.Polls++
	if a.FirstPoll == 0 {
		a.FirstPoll = a.w.r.Step + 1
	}
	if a.st != "working" {
		a.st = "polling"
	}
	ua := a.UA
	if ua == "" {
		ua = "sim-runtime/1.0"
	}
	c := a.start("rt-next", "GET", rtBase+"/invocation/next", map[string]string{"User-Agent": ua}, nil)
	a.w.absorb()
	return c
}

func (a *Actor) Response(id string, body []byte, hdr map[string]string) *Call {
	c := a.start("rt-response", "POST", rtBase+"/invocation/"+id+"/response", hdr, body)
	a.w.absorb()
	return c
}

// ResponseWith is Response with a concurrent duplicate already under way on a second connection.
func (a *Actor) ResponseWith(side *Call, id string, body []byte, hdr map[string]string) *Call {
	r := a.w.r
	if a.Busy() {
		r.Troublef("%s: call started while another is outstanding", a.Who)
	}
	r.NextStep()
	a.Cur = a.Conn.Start(a.Who, "POST", rtBase+"/invocation/"+id+"/response", hdr, body)
	a.Cur.Tag = "rt-response"
	a.Cur.Pair, side.Pair = side, a.Cur
	a.Calls = append(a.Calls, a.Cur)
	r.Settle()
	a.w.absorb()
	return a.Cur
}

func (a *Actor) Error(id string, body []byte, errType string, hdr map[string]string) *Call {
	h := map[string]string{}
	for k, v := range hdr {
		h[k] = v
	}
	if errType != "" {
		h["Lambda-Runtime-Function-Error-Type"] = errType
	}
	c := a.start("rt-error", "POST", rtBase+"/invocation/"+id+"/error", h, body)
	a.w.absorb()
	return c
}

func (a *Actor) InitError(body []byte, errType string) *Call {
	h := map[string]string{}
	if errType != "" {
		h["Lambda-Runtime-Function-Error-Type"] = errType
	}
	c := a.start("rt-initerror", "POST", rtBase+"/init/error", h, body)
	a.w.absorb()
	return c
}

func (a *Actor) RestoreNext() *Call {
	c := a.start("rt-restorenext", "GET", rtBase+"/restore/next", nil, nil)
	a.w.absorb()
	return c
}

func (a *Actor) RestoreError(body []byte, errType string) *Call {
	h := map[string]string{}
	if errType != "" {
		h["Lambda-Runtime-Function-Error-Type"] = errType
	}
	c := a.start("rt-restoreerror", "POST", rtBase+"/restore/error", h, body)
	a.w.absorb()
	return c
}

// Side issues a request on a second connection of the same process (the main connection may be parked in next).
func (a *Actor) Side(tag, method, path string, hdr map[string]string, body []byte) *Call {
	r := a.w.r
	conn := r.Dial(RapiAddr)
	a.P.Attach(conn)
	r.NextStep()
	c := conn.Start(a.Who+"+", method, path, hdr, body)
	c.Tag = tag
	a.SideCalls = append(a.SideCalls, c)
	r.Settle()
	return c
}

// SideStart starts a call on a second connection without waiting for quiescence: the caller issues another
// call in the same step.
func (a *Actor) SideStart(tag, method, path string, hdr map[string]string, body []byte) *Call {
	r := a.w.r
	conn := r.Dial(RapiAddr)
	a.P.Attach(conn)
	c := conn.Start(a.Who+"+", method, path, hdr, body)
	c.Tag = tag
	a.SideCalls = append(a.SideCalls, c)
	return c
}

// Raw issues an arbitrary request.
func (a *Actor) Raw(method, path string, hdr map[string]string, body []byte) *Call {
	c := a.start("raw", method, path, hdr, body)
	a.w.absorb()
	return c
}

// ---- extensions API ----

const extBase = "/2020-01-01/extension"

func (a *Actor) Register(name string, events []string, extraHdr map[string]string) *Call {
	h := map[string]string{"Lambda-Extension-Name": name}
	for k, v := range extraHdr {
		h[k] = v
	}
	ev := events
	if ev == nil {
		ev = []string{}
	}
	body, _ := json.Marshal(map[string]interface{}{"events": ev})
	a.ExtName = name
	a.pendingSubs = events
	c := a.start("ext-register", "POST", extBase+"/register", h, body)
	a.w.absorb()
	return c
}

func (a *Actor) idHdr() map[string]string {
	return map[string]string{"Lambda-Extension-Identifier": a.ExtID}
}

func (a *Actor) ExtNext() *Call {
	a.Polls++
	if a.FirstPoll == 0 {
		a.FirstPoll = a.w.r.Step + 1
	}
	c := a.start("ext-next", "GET", extBase+"/event/next", a.idHdr(), nil)
	a.w.absorb()
	return c
}

func (a *Actor) ExtInitError(errType string) *Call {
	h := a.idHdr()
	if errType != "" {
		h["Lambda-Extension-Function-Error-Type"] = errType
	}
	c := a.start("ext-initerror", "POST", extBase+"/init/error", h, []byte("{}"))
	a.w.absorb()
	return c
}

func (a *Actor) ExtExitError(errType string) *Call {
	h := a.idHdr()
	if errType != "" {
		h["Lambda-Extension-Function-Error-Type"] = errType
	}
	c := a.start("ext-exiterror", "POST", extBase+"/exit/error", h, []byte("{}"))
	a.w.absorb()
	return c
}

// absorb updates actor state from calls completed since the last look.
func (w *World) absorb() {
	for _, a := range w.actors {
		c := a.Cur
		if c == nil || !c.Done || a.absorbed[c] {
			continue
		}
		if c.Pair != nil && !c.Pair.Done && a.P.Alive && !(c.Err == nil && (c.Status == 202 || c.Status == 413)) {
			a.st = "pairwait" // judged once its concurrent duplicate has been answered too
			continue
		}
		a.absorbed[c] = true
		if c.Err != nil {
			// the connection to the API died under a live process: a real client treats that as fatal
			if a.P.Alive {
				a.ConnErrs++
				a.st = "refused"
				a.CurReqID = ""
			}
			continue
		}
		switch c.Tag {
		case "rt-next":
			if c.Status >= 400 {
				a.Refused++
				a.st = "refused" // a runtime whose poll is refused gives up
			}
			if c.Status == 200 {
				id := c.Hdr.Get("Lambda-Runtime-Aws-Request-Id")
				d := Delivery{Step: c.EndStep, At: c.EndAt, ReqID: id, Type: "invoke", Body: c.Body, Hdr: flat(c.Hdr), CallSeq: c.Seq}
				d.Inv = w.matchInvocation(id, c.EndStep, c.EndAt, c.Body)
				a.Deliveries = append(a.Deliveries, d)
				a.CurReqID = id
				a.CurInv = d.Inv
				a.st = "working"
			}
		case "rt-response", "rt-error", "rt-stalled-upload":
			if c.Status == 202 || c.Status == 413 {
				parts := strings.Split(c.Path, "/")
				id := parts[len(parts)-2]
				if a.CurInv != nil && a.CurInv.ReqID == id && a.CurInv.AnswerKind == "" {
					a.CurInv.Answered = c.ReqBody
					a.CurInv.AnswerKind = strings.TrimPrefix(c.Tag, "rt-")
					if c.Tag == "rt-stalled-upload" {
						a.CurInv.AnswerKind = "response"
						if strings.HasSuffix(c.Path, "/error") {
							a.CurInv.AnswerKind = "error"
						}
					}
					if c.Status == 413 {
						a.CurInv.AnswerKind = "oversize"
					}
					a.CurInv.AnswerStep = c.EndStep
				}
				if id == a.CurReqID {
					a.CurReqID = ""
					a.st = "answered"
				}
			} else if c.Status >= 400 && c.Pair != nil && c.Pair.Done && c.Pair.Err == nil && c.Pair.Status == 202 {
				// the concurrent duplicate of this submission was the one accepted: the invocation is answered
				parts := strings.Split(c.Path, "/")
				id := parts[len(parts)-2]
				if a.CurInv != nil && a.CurInv.ReqID == id && a.CurInv.AnswerKind == "" {
					a.CurInv.Answered = c.Pair.ReqBody
					a.CurInv.AnswerKind = strings.TrimSuffix(strings.TrimPrefix(c.Pair.Tag, "rt-"), "-dup")
					a.CurInv.AnswerStep = c.Pair.EndStep
				}
				if id == a.CurReqID {
					a.CurReqID = ""
					a.st = "answered"
				}
			} else if c.Status >= 400 {
				parts := strings.Split(c.Path, "/")
				if id := parts[len(parts)-2]; id != "" && id == a.CurReqID {
					// the submission for the id this runtime was given was refused: a runtime gives up on it
					a.Refused++
					a.CurReqID = ""
					a.st = "refused"
				}
			}
		case "rt-initerror":
			if c.Status == 202 {
				a.st = "initerror"
			}
		case "ext-register":
			if c.Status == 200 {
				a.Registered = true
				a.RegName = c.ReqHdr["Lambda-Extension-Name"]
				a.Regs = append(a.Regs, RegRec{Name: strings.TrimSpace(a.RegName), Events: a.pendingSubs, Step: c.EndStep})
				a.RegStep = c.EndStep
				a.ExtID = c.Hdr.Get("Lambda-Extension-Identifier")
				a.Subs = a.pendingSubs
				a.st = "registered"
				var m map[string]interface{}
				json.Unmarshal(c.Body, &m)
				a.RegResp = m
			}
		case "ext-next":
			if c.Status >= 400 {
				a.Refused++
				a.st = "refused"
			}
			if c.Status == 200 {
				var ev ExtEvent
				json.Unmarshal(c.Body, &ev)
				d := Delivery{Step: c.EndStep, At: c.EndAt, ReqID: ev.RequestID, Type: ev.EventType, Body: c.Body, Hdr: flat(c.Hdr), Ev: ev, CallSeq: c.Seq}
				a.Deliveries = append(a.Deliveries, d)
				a.st = "running"
			}
		case "ext-initerror":
			if c.Status == 202 {
				a.st = "initerror"
			}
		case "ext-exiterror":
			if c.Status == 202 {
				a.st = "exiterror"
			}
		}
	}
}

// matchInvocation binds a request id seen by the runtime to the oldest caller
// whose invocation has not been dispatched yet.
func (w *World) matchInvocation(id string, step int, at time.Duration, body []byte) *Invocation {
	for _, inv := range w.Invokes {
		if inv.ReqID == id {
			return inv // repeated poll
		}
	}
	// prefer the pending caller whose payload this is (concurrent callers), else the oldest pending one
	var pick *Invocation
	for _, inv := range w.Invokes {
		if !inv.Dispatched && inv.Call.Pending() && body != nil && samePayload(inv.Payload, body) {
			pick = inv
			break
		}
	}
	for _, inv := range w.Invokes {
		if pick != nil && inv != pick {
			continue
		}
		if !inv.Dispatched && inv.Call.Pending() {
			inv.Dispatched = true
			inv.ReqID = id
			inv.DispStep = step
			inv.DispAt = at
			return inv
		}
	}
	return nil
}

func flat(h map[string][]string) map[string]string {
	m := map[string]string{}
	for k, v := range h {
		m[k] = strings.Join(v, ",")
	}
	return m
}

// DeadlineMs parses the deadline header of a runtime delivery.
func (d Delivery) DeadlineMs() int64 {
	v, _ := strconv.ParseInt(d.Hdr["Lambda-Runtime-Deadline-Ms"], 10, 64)
	return v
}

func (d Delivery) String() string {
	return fmt.Sprintf("delivery step=%d type=%s id=%s", d.Step, d.Type, d.ReqID)
}

func samePayload(posted, got []byte) bool {
	if len(posted) > MaxPayload {
		posted = posted[:MaxPayload]
	}
	if len(posted) != len(got) {
		return false
	}
	for i := range posted {
		if posted[i] != got[i] {
			return false
		}
	}
	return true
}

// RegRec is one accepted registration.
type RegRec struct {
	Name   string
	Events []string
	Step   int
}
