package simworld

import (
	"bytes"
	"fmt"
	"strings"
	"time"

	"go.amzn.com/lambda/interop"
)

// C12: Runtime API calls are answered according to the lifecycle automaton (DESIGN appendix A.1).
func init() {
	Scenarios["C12"] = scenC12
}

func drawC12Script(t *Tape, snap bool) []Op {
	n := 2 + t.Draw(11)
	var ops []Op
	for i := 0; i < n; i++ {
		switch t.Weighted(6, 5, 2, 2, 2, 1, 1, 1, 1) {
		case 0:
			ops = append(ops, Op{Kind: "next"})
		case 1:
			op := Op{Kind: "response", Arg: []string{"cur", "cur", "cur", "prev", "unknown", "last"}[t.Draw(6)]}
			if t.Chance(1, 4) {
				op.Hdr = map[string]string{"__bad-mode-when-illegal": "1"}
			} else if op.Arg == "cur" && t.Chance(1, 4) {
				// the answer is submitted twice at once: a duplicate (another response, or an error) is under way on a
				// second connection, its handler descheduled at a drawn lock site, when the answer itself arrives
				op = Op{Kind: "response-race", Arg: []string{"response", "error"}[t.Draw(2)],
					Site: []string{"", "GetCurrentInvokeID", "registrationServiceImpl).GetRuntime", "core.(*Runtime).", "SetState", "GetState", "Server).SendResponse", "Server).SendErrorResponse", "ResponseSent", "setRuntimeState"}[t.Draw(10)]}
			}
			ops = append(ops, op)
		case 2:
			ops = append(ops, Op{Kind: "error", Arg: []string{"cur", "cur", "prev", "unknown", "last"}[t.Draw(5)]})
		case 3:
			ops = append(ops, Op{Kind: "initerror", Arg: "Runtime.InitBoom"})
		case 4:
			ops = append(ops, Op{Kind: "restorenext"})
		case 5:
			ops = append(ops, Op{Kind: "restoreerror", Arg: "Runtime.RestoreBoom"})
		case 6:
			ops = append(ops, Op{Kind: "raw", Arg: []string{"GET /2018-06-01/runtime/nope", "GET /2018-06-01/runtime/invocation/next/x", "POST /2018-06-01/runtime/unknown/route"}[t.Draw(3)]})
		case 7:
			ops = append(ops, Op{Kind: "raw", Arg: []string{"POST /2018-06-01/runtime/invocation/next", "GET /2018-06-01/runtime/init/error", "PUT /2018-06-01/runtime/invocation/next"}[t.Draw(3)], Body: []byte("x")})
		case 8:
			ops = append(ops, Op{Kind: "stall", D: time.Duration(1+t.Draw(200)) * time.Millisecond})
		}
	}
	return ops
}

func scenC12(r *Run, job *Job) {
	t := r.T
	snap := t.Chance(1, 4)
	timeoutSec := 3
	nInv := 3 + t.Draw(3)
	if t.Chance(1, 3) {
		r.ReorderNum, r.ReorderDen = 1, 4
	}
	// snapshot mode with an operator: the sandbox is initialised eagerly, the runtime of the first generation parks
	// in restore/next, a restore request releases it, and its script continues in the Restoring state
	restore := snap && t.Chance(1, 2)
	if restore && t.Chance(1, 3) {
		// the restore is descheduled at one of its own steps while the runtime it has (or has not yet) released runs on
		r.AddHold([]string{"SetRenderer<lambda/rapid.handleRestore", "UpdateCredentials<lambda/rapid.handleRestore", "lambda/rapid.handleRestore"}[t.Draw(3)], 1+t.Draw(3), 1+t.Draw(3))
	}
	if !restore && t.Chance(1, 6) {
		// the init goroutine is descheduled around "make the runtime known / start it" while the runtime's first call
		// (or, in a later generation, any call) arrives
		r.AddHold([]string{"PreregisterRuntime<lambda/rapid.doRuntimeDomainInit", "createExitedChannel<lambda/rapid.doRuntimeDomainInit", "lambda/rapid.doRuntimeDomainInit"}[t.Draw(3)], 1+t.Draw(3), 1+t.Draw(3))
	}
	w := r.NewWorld(WorldCfg{TimeoutSec: timeoutSec, InitCaching: snap}, job.Seed)
	e := w.NewEngine()
	e.Bound = time.Duration(nInv*(timeoutSec+8+70)+20) * time.Second
	e.PermNum, e.PermDen = 1, 3 // callers and runtime steps interleave in tape order
	scripts := map[int][]Op{}
	e.BehavFor = func(p *Proc) *Behav {
		b := &Behav{ThenHealthy: true}
		ord := w.GenOrdinal(p.Gen)
		if p.IsRT && ord <= 3 {
			sc := drawC12Script(t, snap)
			if restore && ord == 1 {
				sc = append([]Op{{Kind: "restorenext"}}, sc...)
			}
			scripts[p.Gen] = sc
			b.Script = sc
			b.ThenHealthy = t.Chance(2, 3)
		}
		return b
	}
	for i := 0; i < nInv; i++ {
		e.Plan = append(e.Plan, InvSpec{Payload: Tagged(fmt.Sprintf("ev%d", i+1), 16), Delay: []time.Duration{0, 0, 50 * time.Millisecond, 0, 0, 50 * time.Millisecond, 70 * time.Second}[t.Draw(7)]})
	}
	if restore {
		r.NextStep()
		r.Go(func() { EagerInit(w.Builder.LambdaInvokeAPI(), int64(timeoutSec), w.BS) })
		r.Settle()
		restoreStarted, restoreDone := false, false
		e.Extra = func() []action {
			rt := rtActor(e, 1)
			if restoreStarted || rt == nil || !rt.Busy() || rt.Cur.Tag != "rt-restorenext" {
				return nil
			}
			return []action{{"operator restore", func() {
				restoreStarted = true
				r.NextStep()
				r.Fault("restore-request")
				r.Go(func() {
					w.Server.Restore(&interop.Restore{AwsKey: "AKIAC12", AwsSecret: "s", AwsSession: "t", CredentialsExpiry: time.Date(2000, 1, 2, 0, 0, 0, 0, time.UTC), RestoreHookTimeoutMs: 2000, LogStreamName: "stream"})
					restoreDone = true
					e.Ver++
				})
				r.Settle()
			}}}
		}
		// invocations start only once the restore is over (or can never start)
		e.Hold = func() bool {
			rt := rtActor(e, 1)
			if rt == nil {
				return true
			}
			if !restoreStarted {
				return rt.P.Alive && r.Now() < 20*time.Second
			}
			return !restoreDone
		}
	}
	r.Desc = fmt.Sprintf("C12 snap=%v restore=%v inv=%d reorder=%d/%d", snap, restore, nInv, r.ReorderNum, r.ReorderDen)
	r.Logf("%s", r.Desc)
	e.Stuck = func() { r.Failf("C12.hang", "plan did not finish within the bound") }
	e.Run()
	for _, a := range e.Actors() {
		if a.IsRT {
			c12Judge(r, w, a, snap, restore && w.GenOrdinal(a.P.Gen) == 1)
		}
	}
}

// c12Judge replays the calls of one runtime against the reference automaton.
func c12Judge(r *Run, w *World, a *Actor, snap, operatorRestore bool) {
	const (
		fresh = iota
		initFailed
		working
		answered
		restoring
		restoreFailed
		unspecified
	)
	names := []string{"Fresh", "InitFailed", "Working", "Answered", "Restoring", "RestoreFailed", "unspecified"}
	state := fresh
	curID := ""
	var curBody []byte
	seen := map[string]bool{}
	who := a.Who
	refusal := func(c *Call, want ...int) bool {
		for _, s := range want {
			if c.Status == s {
				return true
			}
		}
		return false
	}
	for _, c := range a.Calls {
		if state == unspecified {
			return
		}
		if c.Done && c.Err != nil && (a.P.Alive || a.P.DeathStep > c.EndStep) {
			r.Failf("C12.connection-dropped", "%s: %s %s ended with a dropped connection (%v) although the process was alive (state %s)", who, c.Method, c.Path, errClass(c.Err), names[state])
		}
		if !c.Done || c.Err != nil {
			// parked for ever or cut by the death of the process
			if c.Tag == "rt-next" && c.Err == nil {
				// still parked at the end: legal only where next may park
				r.Check(state == fresh || state == answered || state == restoring, "C12.next-parked", "%s: next is parked in state %s", who, names[state])
			}
			return
		}
		r.NonTriv = true
		r.Probe("verdict:" + names[state] + ":" + c.Tag)
		switch c.Tag {
		case "rt-next":
			switch state {
			case initFailed, restoreFailed:
				r.Check(c.Status == 403, "C12.next-after-failure", "%s: next in state %s answered %d %s, expected 403", who, names[state], c.Status, summarize(c.Body))
			case working:
				id := c.Hdr.Get("Lambda-Runtime-Aws-Request-Id")
				r.Check(c.Status == 200 && id == curID && bytes.Equal(c.Body, curBody), "C12.repeated-next", "%s: next repeated before responding returned %d id=%s (current %s) %s", who, c.Status, id, curID, summarize(c.Body))
			default:
				id := c.Hdr.Get("Lambda-Runtime-Aws-Request-Id")
				r.Check(c.Status == 200, "C12.next-refused", "%s: next in state %s answered %d %s", who, names[state], c.Status, summarize(c.Body))
				r.Check(id != "" && !seen[id], "C12.next-stale-event", "%s: next in state %s returned request id %q which was delivered before", who, names[state], id)
				// it parks exactly when no invocation is available
				if c.EndStep > c.StartStep {
					for _, inv := range w.Invokes {
						if inv.ArrivalStep <= c.StartStep && (inv.DispStep == 0 || inv.DispStep > c.StartStep) && (!inv.Call.Done || inv.Call.EndStep > c.StartStep) && inv.ReqID == id {
							r.Failf("C12.next-parked-with-work", "%s: next issued at step %d was answered only at step %d although invocation %d had arrived at step %d", who, c.StartStep, c.EndStep, inv.N, inv.ArrivalStep)
						}
					}
				}
				seen[id] = true
				curID, curBody = id, c.Body
				state = working
			}
		case "rt-response", "rt-error":
			parts := strings.Split(c.Path, "/")
			id := parts[len(parts)-2]
			if state == working && id == curID && c.Pair != nil {
				// the same invocation answered on two connections at once: accepted once, the other call refused
				p := c.Pair
				okMain := c.Status == 202 || c.Status == 413
				okSide := p.Done && p.Err == nil && (p.Status == 202 || p.Status == 413)
				r.Check(okMain != okSide, "C12.concurrent-submissions", "%s: two concurrent submissions for the in-flight id were answered %d and %d: exactly one must be accepted", who, c.Status, p.Status)
				loser := c
				if okMain {
					loser = p
				}
				r.Check(!loser.Done || loser.Err != nil || refusal(loser, 400, 403), "C12.concurrent-submissions", "%s: the losing one of two concurrent submissions was answered %d %s, expected 403 (or 400)", who, loser.Status, summarize(loser.Body))
				state = answered
			} else if state == working && id == curID {
				r.Check(c.Status == 202 || c.Status == 413, "C12.submission-refused", "%s: %s for the in-flight id answered %d %s", who, c.Tag, c.Status, summarize(c.Body))
				state = answered
			} else if id != curID || curID == "" {
				r.Check(refusal(c, 400), "C12.wrong-id", "%s: %s for id %q (in flight: %q, state %s) answered %d %s, expected 400", who, c.Tag, id, curID, names[state], c.Status, summarize(c.Body))
			} else {
				// the id is the right one for as long as its invocation is in flight (the caller has not been answered):
				// the call is illegal in the current state, not a wrong id
				for _, inv := range w.Invokes {
					if inv.ReqID == id && c.Done && c.Err == nil && (!inv.Call.Done || inv.Call.EndStep > c.EndStep) {
						r.Check(c.Status == 403, "C12.second-submission-status", "%s: %s for the id in flight, already answered (state %s), got %d %s, expected 403 (400 is for a wrong request id)", who, c.Tag, names[state], c.Status, summarize(c.Body))
					}
				}
				r.Check(refusal(c, 400, 403), "C12.second-submission", "%s: %s for the already answered id in state %s answered %d %s, expected 400/403", who, c.Tag, names[state], c.Status, summarize(c.Body))
			}
		case "rt-initerror":
			switch state {
			case fresh:
				r.Check(c.Status == 202, "C12.init-error-refused", "%s: init/error before the first next answered %d %s", who, c.Status, summarize(c.Body))
				state = initFailed
			case initFailed, restoreFailed:
				// repeats of a terminal report: unspecified
			case restoring:
				r.Check(c.Status == 202, "C12.init-error-refused", "%s: init/error while restoring answered %d %s", who, c.Status, summarize(c.Body))
				state = restoreFailed
			default:
				r.Check(c.Status == 403, "C12.init-error-late", "%s: init/error in state %s answered %d %s, expected 403", who, names[state], c.Status, summarize(c.Body))
			}
		case "rt-restorenext":
			if !snap {
				r.Check(c.Status == 404, "C12.restore-route-in-plain-mode", "%s: restore/next answered %d in plain mode, expected 404", who, c.Status)
				break
			}
			if state == fresh {
				// parked until a restore (or, in the emulator, the first invocation) releases it
				if !operatorRestore {
					// released by the first invocation (the emulator has no restore of its own): what it returns then is not
					// specified by the automaton
					if c.Status == 200 {
						state = restoring
					} else {
						state = unspecified
					}
					break
				}
				r.Check(c.Status == 200 && len(c.Body) == 0, "C12.restore-next-answer", "%s: restore/next, parked in state Fresh and released by the restore request, was answered %d %s", who, c.Status, summarize(c.Body))
				r.Probe("entered-restoring")
				state = restoring
				break
			}
			r.Check(c.Status == 403, "C12.restore-next-late", "%s: restore/next in state %s answered %d %s, expected 403", who, names[state], c.Status, summarize(c.Body))
		case "rt-restoreerror":
			if !snap {
				r.Check(c.Status == 404, "C12.restore-route-in-plain-mode", "%s: restore/error answered %d in plain mode, expected 404", who, c.Status)
				break
			}
			if state == restoring {
				r.Check(c.Status == 202, "C12.restore-error-refused", "%s: restore/error while restoring answered %d", who, c.Status)
				state = restoreFailed
				break
			}
			if state == restoreFailed {
				break
			}
			r.Check(c.Status == 403, "C12.restore-error-illegal", "%s: restore/error in state %s answered %d %s, expected 403", who, names[state], c.Status, summarize(c.Body))
		case "raw":
			if strings.Contains(c.Path, "nope") || strings.Contains(c.Path, "unknown") || strings.HasSuffix(c.Path, "/x") {
				r.Check(c.Status == 404, "C12.unknown-route", "%s: %s %s answered %d, expected 404", who, c.Method, c.Path, c.Status)
			} else {
				r.Check(c.Status == 405, "C12.wrong-method", "%s: %s %s answered %d, expected 405", who, c.Method, c.Path, c.Status)
			}
		}
	}
}
