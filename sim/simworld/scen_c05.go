package simworld

import (
	"bytes"
	"fmt"
	"time"
)

// C05: timeout - bounded answer, full teardown, fresh environment next.
func init() {
	Scenarios["C05"] = scenC05
}

var c05Offsets = []time.Duration{-time.Millisecond, -time.Microsecond, -time.Nanosecond, 0, time.Nanosecond, time.Microsecond, time.Millisecond}

var c05Points = []string{"ext-before-register", "ext-before-first-poll", "rt-before-first-poll", "rt-before-response", "rt-before-repoll", "ext-after-event", "rt-mid-upload"}

func scenC05(r *Run, job *Job) {
	t := r.T
	profile := job.Profile
	if profile == "" {
		profile = []string{"stall", "sweep", "hold"}[t.Draw(3)]
	}
	timeoutSec := 1 + t.Draw(5)
	T := time.Duration(timeoutSec) * time.Second
	exts := DrawExts(t, 2, 1)
	point := ""
	var offset time.Duration
	sweepWho := 0
	lateAndSilent := false
	switch profile {
	case "stall":
		point = c05Points[t.Draw(len(c05Points))]
		if (point == "ext-before-register" || point == "ext-before-first-poll" || point == "ext-after-event") && len(ExtFiles(exts)) == 0 {
			exts = append(exts, ExtCfg{Name: "e1", Subs: []string{"INVOKE", "SHUTDOWN"}})
		}
		if point == "ext-after-event" {
			exts[0].Subs = []string{"INVOKE", "SHUTDOWN"}
			for i := range exts {
				if !exts[i].Internal {
					exts[i].Subs = extSubSets[t.Draw(2)]
					break
				}
			}
		}
	case "sweep":
		offset = c05Offsets[t.Draw(len(c05Offsets))]
		sweepWho = t.Draw(5) // 0: the response, 1: the runtime's re-poll, 2: the last extension's re-poll, 3: the runtime's first poll (end of init), 4: the runtime's exit (the failure reset is still running when time runs out)
		if sweepWho == 4 {
			offset = []time.Duration{-1500 * time.Millisecond, -500 * time.Millisecond, -100 * time.Millisecond, -time.Millisecond}[t.Draw(4)]
			if len(ExtFiles(exts)) == 0 {
				exts = append(exts, ExtCfg{Name: "e1", Subs: []string{"INVOKE", "SHUTDOWN"}})
			}
		}
		lateAndSilent = sweepWho == 3 && t.Chance(1, 3)
		if sweepWho == 3 && t.Chance(1, 2) {
			// ... and the dispatch that follows is descheduled for a moment, across the expiry
			r.AddHold([]string{"HandleInvoke", "setReplyStream", "FastInvoke", "rapidcore.(*Server).Invoke"}[t.Draw(4)], 1+t.Draw(3), 1+t.Draw(4))
		}
	}
	switch t.Draw(3) {
	case 1:
		r.ReorderNum, r.ReorderDen = 1, 4
	case 2:
		r.ReorderNum, r.ReorderDen = 1, 2
	}
	w := r.NewWorld(WorldCfg{TimeoutSec: timeoutSec, ExtFiles: ExtFiles(exts)}, job.Seed)
	e := w.NewEngine()
	e.Bound = time.Duration(5*(timeoutSec+16)) * time.Second
	if t.Chance(1, 2) {
		e.PermNum, e.PermDen = 1, 3
	}
	e.HoldAcrossTimers = profile == "sweep" && sweepWho == 3 || profile == "hold" && t.Chance(1, 2)
	// process reactions
	rtOnTerm := []string{"", "exit0", "ignore"}[t.Draw(3)]
	var killLat, maxKillLat time.Duration
	if t.Chance(1, 3) {
		killLat = time.Duration(1+t.Draw(300)) * time.Millisecond
		maxKillLat = killLat
	}
	extOnShut := []string{"", "ignore", "exit1"}[t.Draw(3)]
	if profile == "sweep" && sweepWho == 4 && t.Chance(2, 3) {
		extOnShut = "ignore" // the failure reset takes its full allowance
	}
	firstExt := ""
	for _, x := range exts {
		if !x.Internal {
			firstExt = x.Name
			break
		}
	}
	long := T + 20*time.Second
	// a history: the generation that serves the second invocation stalls at the same point (two timeouts in a row)
	repeat := profile == "stall" && t.Chance(1, 3)
	nFaulty := 1
	if repeat {
		nFaulty = 2
	}
	e.BehavFor = BehavForExts(exts, func(p *Proc, b *Behav) {
		b.KillLatency = killLat
		ord := w.GenOrdinal(p.Gen)
		if p.IsRT {
			b.OnTerm = rtOnTerm
		} else {
			b.OnShutdown = extOnShut
		}
		if ord != 1 && !(repeat && ord == 2) {
			return
		}
		switch profile {
		case "stall":
			switch point {
			case "ext-before-register":
				if !p.IsRT && p.ExtName == firstExt {
					b.Stalls = map[int]time.Duration{0: long}
				}
			case "ext-before-first-poll":
				if !p.IsRT && p.ExtName == firstExt {
					b.Stalls = map[int]time.Duration{1: long}
				}
			case "rt-before-first-poll":
				if p.IsRT {
					b.Stalls = map[int]time.Duration{0: long}
				}
			case "rt-before-response":
				if p.IsRT {
					b.Stalls = map[int]time.Duration{1: long}
				}
			case "rt-before-repoll":
				if p.IsRT {
					b.Stalls = map[int]time.Duration{2: long}
				}
			case "rt-mid-upload":
				if p.IsRT {
					// half of the response body is uploaded, then nothing more
					b.Script, b.ThenHealthy = []Op{{Kind: "next"}, {Kind: "stalled-upload", Arg: []string{"response", "error"}[t.Draw(2)]}}, false
				}
			case "ext-after-event":
				if !p.IsRT && p.ExtName == firstExt {
					b.Stalls = map[int]time.Duration{2: long}
				}
			}
		case "sweep":
			if p.IsRT {
				switch sweepWho {
				case 0:
					b.Script = []Op{{Kind: "next"}, {Kind: "until", D: T + offset}, {Kind: "response"}}
				case 1:
					b.Script = []Op{{Kind: "next"}, {Kind: "response"}, {Kind: "until", D: T + offset}, {Kind: "next"}}
				case 3:
					b.Script = []Op{{Kind: "untilinv", D: T + offset}, {Kind: "next"}, {Kind: "response"}}
					if lateAndSilent {
						// ... and, once it has polled, never answers: the only thing that can end this invocation is the
						// cancellation by the timeout, which may have arrived before the dispatch armed its barriers
						b.Script, b.ThenHealthy = []Op{{Kind: "untilinv", D: T + offset}, {Kind: "next"}, {Kind: "stall", D: 20 * T}}, false
					}
				case 4:
					b.Script, b.ThenHealthy = []Op{{Kind: "next"}, {Kind: "until", D: T + offset}, {Kind: "exit", N: 1}}, false
				}
			} else if sweepWho == 2 && p.ExtName == firstExt {
				b.Script = []Op{{Kind: "register"}, {Kind: "extnext"}, {Kind: "untilinv", D: T + offset}, {Kind: "extnext"}}
			}
		}
	})
	if profile == "hold" {
		sites := []string{"getCachedInitErrorResponse", "HandleReset", "AwaitRelease", "trySendDefaultErrorResponse", "Server).Reset", "reinitialize", "Server).Release"}
		site := sites[t.Draw(len(sites))]
		r.AddHold(site, 1+t.Draw(2), 1+t.Draw(6))
		point = "hold:" + site
		// make the first invocation time out through a runtime that never answers
		inner := e.BehavFor
		e.BehavFor = func(p *Proc) *Behav {
			b := inner(p)
			if p.IsRT && w.GenOrdinal(p.Gen) == 1 {
				which := t.Draw(3)
				b.Stalls = map[int]time.Duration{which: long}
			}
			return b
		}
	}
	for i := 0; i < 2+nFaulty; i++ {
		e.Plan = append(e.Plan, InvSpec{Payload: Tagged(fmt.Sprintf("ev%d", i+1), 20)})
	}
	pointDesc := point
	if repeat {
		pointDesc += "(twice)"
		e.Bound += time.Duration(timeoutSec+16) * time.Second
	}
	r.Desc = fmt.Sprintf("C05 %s T=%ds point=%s offset=%v who=%d silent=%v exts=%v rtOnTerm=%q extOnShutdown=%q killLat=%s reorder=%d/%d", profile, timeoutSec, pointDesc, offset, sweepWho, lateAndSilent, exts, rtOnTerm, extOnShut, killLat, r.ReorderNum, r.ReorderDen)
	r.Logf("%s", r.Desc)
	e.Stuck = func() {
		for _, inv := range w.Invokes {
			r.Check(inv.Call.Done, "C05.hang", "invocation %d was never answered (arrived %s, now %s)", inv.N, fmtDur(inv.ArrivalAt), fmtDur(r.Now()))
		}
		r.Failf("C05.hang", "plan did not finish within the bound")
	}
	e.Run()
	r.ReleaseHolds()
	r.Settle()
	judgeWho := sweepWho
	if lateAndSilent {
		judgeWho = 5 // the party never answers after all: only the bounds of a timeout apply
	}
	c05Judge(r, w, e, T, offset, profile, judgeWho, maxKillLat, firstExt != "", nFaulty)
}

func c05Judge(r *Run, w *World, e *Engine, T, offset time.Duration, profile string, sweepWho int, killLat time.Duration, hasExt bool, nFaulty int) {
	timeoutBody := []byte(timeoutText(w.Cfg.TimeoutSec))
	inj := time.Duration(r.Stats.InjectedDelayNs)
	for i, inv := range w.Invokes {
		r.Check(inv.Call.Done && inv.Call.Err == nil, "C05.hang", "invocation %d: %s", inv.N, inv.Call)
		st, body := inv.Call.Status, inv.Call.Body
		isTimeout := st == 200 && bytes.Equal(body, timeoutBody)
		isResp := st == 200 && inv.AnswerKind == "response" && bytes.Equal(body, inv.Answered)
		if i < nFaulty && profile == "sweep" && sweepWho == 4 {
			// the runtime exits shortly before the expiry: the failure outcome or the timeout outcome, in bounded time
			eb, okJSON := ParseErr(body)
			isFail := st >= 500 && okJSON && eb.ErrorType == "Runtime.ExitError"
			r.Check(isTimeout || isFail, "C05.outcome", "invocation %d (runtime exits %s before the expiry) must end in the failure or the timeout outcome, got %d %s", inv.N, -offset, st, summarize(body))
			el := inv.Call.EndAt - inv.ArrivalAt
			bound := T + 2*time.Second + 2*time.Second + 100*time.Millisecond + 4*killLat + inj + 50*time.Millisecond
			r.Check(el <= bound, "C05.late-answer", "outcome after %s, bound %s", el, bound)
			r.NonTriv = true
			r.Probe("exit-before-expiry")
			continue
		}
		if i < nFaulty {
			r.Check(isTimeout || isResp, "C05.outcome", "invocation %d must end in its response or the timeout text, got %d %s (runtime answered: %q)", inv.N, st, summarize(body), inv.AnswerKind)
			if isTimeout {
				r.NonTriv = true
				r.Probe("timeout-fired")
				el := inv.Call.EndAt - inv.ArrivalAt
				bound := T + 2*time.Second + 2*time.Second + 100*time.Millisecond + 4*killLat + inj + 50*time.Millisecond
				r.Check(el <= bound, "C05.late-answer", "timeout outcome after %s, bound %s", el, bound)
				r.Check(el >= T, "C05.early-timeout", "timeout outcome after %s, before the timeout %s", el, T)
				// teardown before the answer
				for _, p := range w.Sup.All() {
					if p.ExecStep < inv.Call.EndStep && w.GenOrdinal(p.Gen) == i+1 {
						r.Check(!p.Alive && p.DeathStep <= inv.Call.EndStep, "C05.teardown", "timeout answered at step %d while %s was still alive", inv.Call.EndStep, p.Name)
					}
				}
			}
			if profile == "sweep" {
				if isResp {
					r.Probe("sweep-response")
				} else {
					r.Probe("sweep-timeout")
				}
				if offset < 0 && !r.holdEverFired() && sweepWho != 5 {
					r.Probe(fmt.Sprintf("response-within-%s-of-expiry", -offset))
					r.Check(isResp, "C05.timeout-before-expiry", "everything returned %s before expiry but the outcome was %d %s", -offset, st, summarize(body))
				}
			}
			continue
		}
		// later invocations: healthy parties, must succeed on fresh processes if the first timed out
		r.Check(st == 200 && inv.AnswerKind == "response" && bytes.Equal(body, inv.Answered), "C05.recovery", "invocation %d after the timeout: %d %s (runtime answered %q)", inv.N, st, summarize(body), inv.AnswerKind)
		first := w.Invokes[nFaulty-1]
		if st0 := first.Call; st0.Status == 200 && bytes.Equal(st0.Body, timeoutBody) {
			gen := genServing(w, e, inv)
			for _, p := range w.Sup.All() {
				if p.Gen == gen {
					r.Check(p.ExecStep >= first.Call.EndStep || p.ExecAt >= first.ArrivalAt+T, "C05.stale-process", "invocation %d served by %s started at step %d, before the timeout answer at step %d", inv.N, p.Name, p.ExecStep, first.Call.EndStep)
				}
			}
		}
	}
}
