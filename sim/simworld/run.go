package simworld

import (
	"crypto/sha256"
	"encoding/hex"
	"fmt"
	"hash/fnv"
	"os"
	"regexp"
	"sort"
	"strings"
	"sync"
	"testing/synctest"
	"time"

	"go.amzn.com/verifsim/simsync"
)

// Violation is a property violation found by an oracle.
type Violation struct {
	Rule string `json:"rule"`
	Msg  string `json:"msg"`
	Step int    `json:"step"`
	At   string `json:"at"`
}

type failSentinel struct{}

// Trouble is harness trouble (never a violation).
type Trouble struct{ Msg string }

// Hold keeps the Nth goroutine arriving at a lock site matching Sig parked.
type Hold struct {
	Sig      string // substring of the site signature
	Need     string // when set: only goroutines with a frame whose function name contains this count
	Nth      int    // 1-based occurrence
	Steps    int    // release after this many external steps (0 = only explicit)
	Seen     int
	W        *simsync.Waiter
	AtStep   int
	At       time.Time
	Done     bool
	Released bool
	RelStep  int           // step at which the hold was released
	HeldFor  time.Duration // fake time the goroutine was kept parked (set at release, corrected when it gets the lock)
}

type Stats struct {
	SchedSteps      int            `json:"sched_steps"`
	ExternalSteps   int            `json:"external_steps"`
	StepsWithChoice int            `json:"steps_with_choice"`
	NonNatural      int            `json:"non_natural"`
	HoldsFired      int            `json:"holds_fired"`
	Twins           int            `json:"twins"`
	Faults          map[string]int `json:"faults"`
	Probes          map[string]int `json:"probes"`
	SimNanos        int64          `json:"sim_nanos"`
	InjectedDelayNs int64          `json:"injected_delay_ns"`
}

// Run is one simulated execution.
type Run struct {
	T     *Tape
	Sched *simsync.Scheduler
	Step  int
	T0    time.Time

	ReorderNum, ReorderDen int // probability of a non-natural lock grant

	Holds       []*Hold
	MaxHoldTime time.Duration

	Log       []string
	Viol      *Violation
	Trouble   *Trouble
	Stats     Stats
	States    map[string]struct{}
	Trans     map[string]struct{}
	lastState string

	mu       sync.Mutex // real; guards calls/outstanding flags written by harness goroutines
	calls    []*Call
	W        *World
	NonTriv  bool // the oracle made at least one non-vacuous judgement
	maxSched int

	afterSettle func()
	Sites       []string // lock-site inventory of the current tree (sorted)
	SitesPU     []string // explicit unlock points of the current tree (unlock-yield pass)
	ForceSite   string   // debugging aid: every hold of the run is put at this site
	Known       string
	Desc        string

	// two-pass (differential) scenarios: pass 1 sets WantSecond, pass 2 finds the first run in Other
	Pass       int
	WantSecond bool
	Other      *Run
	Aux        []string
}

func newRun(t *Tape) *Run {
	r := &Run{T: t, ReorderDen: 1, States: map[string]struct{}{}, Trans: map[string]struct{}{}}
	r.Stats.Faults = map[string]int{}
	r.Stats.Probes = map[string]int{}
	r.maxSched = 200000
	r.MaxHoldTime = 50 * time.Millisecond
	return r
}

// Now returns fake time since the start of the run.
func (r *Run) Now() time.Duration { return time.Since(r.T0) }

func (r *Run) Logf(format string, a ...interface{}) {
	l := fmt.Sprintf("s%03d t=%s ", r.Step, fmtDur(r.Now())) + fmt.Sprintf(format, a...)
	r.Log = append(r.Log, l)
	if logFile != nil {
		fmt.Fprintln(logFile, l)
	}
}

// logFile, when set (VERIF_LOG_FILE), receives every log line as it is produced, so the trace of a run that
// kills the process survives.
var logFile *os.File

func init() {
	if p := os.Getenv("VERIF_LOG_FILE"); p != "" {
		logFile, _ = os.OpenFile(p, os.O_WRONLY|os.O_APPEND|os.O_CREATE, 0o644)
	}
}

func fmtDur(d time.Duration) string {
	return fmt.Sprintf("%d.%09d", int64(d/time.Second), int64(d%time.Second))
}

// Fault counts an injected fault that actually fired.
func (r *Run) Fault(kind string) { r.Stats.Faults[kind]++ }

// Probe counts a reach probe.
func (r *Run) Probe(name string) { r.Stats.Probes[name]++ }

// Failf records a violation and unwinds the scenario.
func (r *Run) Failf(rule string, format string, a ...interface{}) {
	if r.Viol == nil {
		r.Viol = &Violation{Rule: rule, Msg: fmt.Sprintf(format, a...), Step: r.Step, At: fmtDur(r.Now())}
		r.Logf("VIOLATION %s: %s", rule, r.Viol.Msg)
	}
	panic(failSentinel{})
}

// Check fails with rule unless cond holds.
func (r *Run) Check(cond bool, rule string, format string, a ...interface{}) {
	if !cond {
		r.Failf(rule, format, a...)
	}
}

// Troublef records harness trouble and unwinds.
func (r *Run) Troublef(format string, a ...interface{}) {
	if r.Trouble == nil {
		r.Trouble = &Trouble{Msg: fmt.Sprintf(format, a...)}
		r.Logf("TROUBLE %s", r.Trouble.Msg)
	}
	panic(failSentinel{})
}

// Go starts a harness goroutine inside the bubble.
func (r *Run) Go(f func()) {
	go func() {
		defer simsync.Signal()
		f()
	}()
}

// NextStep starts a new external step.
func (r *Run) NextStep() {
	r.Step++
	r.Stats.ExternalSteps++
	for _, h := range r.Holds {
		if h.W != nil && !h.Released && h.Steps > 0 && r.Step-h.AtStep >= h.Steps {
			r.releaseHold(h)
		}
	}
}

func (r *Run) releaseHold(h *Hold) {
	if h.W != nil && !h.Released {
		h.Released = true
		h.W.Held = false
		h.HeldFor = time.Since(h.At)
		h.RelStep = r.Step
		r.Stats.InjectedDelayNs += int64(time.Since(h.At))
		r.Logf("hold released: %s", h.W.Sig)
	}
}

// ReleaseHolds releases every held goroutine.
func (r *Run) ReleaseHolds() {
	for _, h := range r.Holds {
		r.releaseHold(h)
	}
}

// DisableHolds releases every held goroutine and makes sure no further hold fires.
func (r *Run) DisableHolds() {
	r.ReleaseHolds()
	for _, h := range r.Holds {
		h.Done = true
	}
}

// AddHold registers a hold.
func (r *Run) AddHold(sig string, nth, steps int) *Hold {
	if r.Sched != nil && r.Sched.UnlockYield && len(r.SitesPU) > 0 {
		// unlock-yield pass: the scenario's choice of a lock site is mapped onto the explicit unlock points of the
		// current tree (no further draw from the tape)
		h := fnv.New32a()
		h.Write([]byte(sig))
		sig = r.SitesPU[int(h.Sum32())%len(r.SitesPU)]
	}
	if r.ForceSite != "" {
		sig = r.ForceSite // debugging aid (verif job ... holdsite=<index into the inventory, 1-based>)
	}
	h := &Hold{Sig: sig, Nth: nth, Steps: steps}
	r.Holds = append(r.Holds, h)
	return h
}

// HeldNow reports whether some goroutine is currently held back.
func (r *Run) HeldNow() bool {
	for _, h := range r.Holds {
		if h.W != nil && !h.Released {
			return true
		}
	}
	return false
}

func (r *Run) classify(ws []*simsync.Waiter) {
	for _, w := range ws {
		if w.Tag != "" {
			continue
		}
		w.Tag = "seen"
		w.Since = int64(r.Stats.SchedSteps)
		if r.Sched.UnlockYield && !w.Explicit {
			// unlock-yield pass: goroutines are held where they have just released a lock in the middle of a function
			// (the main pass holds them where they ask for one)
			continue
		}
		for _, h := range r.Holds {
			if h.Done || !strings.Contains(w.Sig, h.Sig) || h.Need != "" && !w.StackHas(h.Need) {
				continue
			}
			h.Seen++
			if h.Seen == h.Nth {
				h.Done = true
				h.W = w
				h.AtStep = r.Step
				h.At = time.Now()
				w.Held = true
				r.Stats.HoldsFired++
				r.Logf("hold fired: %s", w.Sig)
				break
			}
		}
	}
}

// Settle grants lock acquisitions one at a time until every goroutine of the
// run is durably blocked and nobody (that is not deliberately held) is enabled.
func (r *Run) Settle() {
	for {
		select {
		case <-r.Sched.Poke():
		default:
		}
		synctest.Wait()
		r.classify(r.Sched.Parked())
		en := r.Sched.Enabled()
		var cand []*simsync.Waiter
		for _, w := range en {
			if !w.Held {
				cand = append(cand, w)
			}
		}
		if len(cand) == 0 {
			break
		}
		// canonical order: first seen (scheduling step), then site, then lock, then arrival
		sort.SliceStable(cand, func(i, j int) bool {
			a, b := cand[i], cand[j]
			if a.Since != b.Since {
				return a.Since < b.Since
			}
			if a.Sig != b.Sig {
				return a.Sig < b.Sig
			}
			if a.MID != b.MID {
				return a.MID < b.MID
			}
			return a.Seq < b.Seq
		})
		idx := 0
		if len(cand) > 1 {
			r.Stats.StepsWithChoice++
			idx = r.T.Biased(len(cand), r.ReorderNum, r.ReorderDen)
			if idx != 0 {
				r.Stats.NonNatural++
			}
			for i := 1; i < len(cand); i++ {
				if cand[i].Sig == cand[i-1].Sig && cand[i].Since == cand[i-1].Since && cand[i].MID == cand[i-1].MID {
					r.Stats.Twins++
					break
				}
			}
		}
		if schedTrace {
			var names []string
			for _, c := range cand {
				names = append(names, fmt.Sprintf("%s#%d@%d", shortSig(c.Sig), c.MID, c.Since))
			}
			r.Logf("sched pick=%d of %v", idx, names)
		}
		if !r.Sched.Grant(cand[idx]) {
			r.Troublef("grant of enabled waiter failed: %s", cand[idx].Sig)
		}
		for _, h := range r.Holds {
			if h.W == cand[idx] && h.Released {
				// a hold released by its step count while the driver was about to sleep only gets going at the next
				// wake-up: what counts is how long the goroutine really stayed parked
				h.HeldFor = time.Since(h.At)
			}
		}
		r.Stats.SchedSteps++
		if r.Stats.SchedSteps > r.maxSched {
			r.Troublef("scheduling step limit exceeded (busy loop?)")
		}
	}
	// quiescent: whatever poke is still buffered was sent before this point and has been served; a stale token
	// would wake the next sleep at once and shift the step numbering by one, depending on real timing
	select {
	case <-r.Sched.Poke():
	default:
	}
	r.collect()
	if r.afterSettle != nil {
		r.afterSettle()
	}
	r.sampleState()
}

// collect stamps the calls that completed since the last quiescent point.
func (r *Run) collect() {
	r.mu.Lock()
	defer r.mu.Unlock()
	var fin []*Call
	for _, c := range r.calls {
		if c.fin && !c.Done {
			fin = append(fin, c)
		}
	}
	sort.Slice(fin, func(i, j int) bool { return fin[i].Seq < fin[j].Seq })
	for _, c := range fin {
		c.Done = true
		c.EndStep = r.Step
		c.EndAt = r.Now()
		r.Logf("done  %s", c.String())
	}
}

// Sleep advances fake time by d, letting the emulator run whenever one of its
// timers fires (pumped sleep: emulator timers are never overshot).
func (r *Run) Sleep(d time.Duration) {
	r.SleepUntil(d, nil)
}

// SleepUntil advances fake time until cond holds at a quiescent point or max
// has passed. It reports whether cond held.
func (r *Run) SleepUntil(max time.Duration, cond func() bool) bool {
	deadline := time.Now().Add(max)
	for {
		r.Settle()
		if cond != nil && cond() {
			return true
		}
		rem := time.Until(deadline)
		if rem <= 0 {
			return cond == nil
		}
		if r.HeldNow() {
			// a held goroutine is a descheduled thread: legal for a finite time only. Unless the scenario
			// asked for a long hold, let at most MaxHoldTime of fake time pass, then let it run.
			left := r.MaxHoldTime - r.oldestHoldAge()
			if left <= 0 {
				r.ReleaseHolds()
				continue
			}
			if left < rem {
				rem = left
			}
		}
		timer := time.NewTimer(rem)
		before := time.Now()
		// whatever happens when a timer fires during the sleep belongs to a new step
		r.NextStep()
		select {
		case <-timer.C:
		case <-r.Sched.Poke():
			timer.Stop()
		}
		if adv := time.Since(before); adv > 0 {
			r.Stats.SimNanos += int64(adv)
		}
	}
}

var uuidRe = regexp.MustCompile(`[0-9a-f]{8}-[0-9a-f]{4}-[0-9a-f]{4}-[0-9a-f]{4}-[0-9a-f]{12}`)

// CanonHash is the behaviour fingerprint: the log with uuids renamed to first-occurrence indices.
func (r *Run) CanonHash() string {
	h := sha256.New()
	names := map[string]string{}
	for _, l := range r.Log {
		l = uuidRe.ReplaceAllStringFunc(l, func(u string) string {
			if n, ok := names[u]; ok {
				return n
			}
			n := fmt.Sprintf("U%d", len(names))
			names[u] = n
			return n
		})
		h.Write([]byte(l))
		h.Write([]byte{'\n'})
	}
	return hex.EncodeToString(h.Sum(nil))[:16]
}

// LogHash is the determinism fingerprint of the run.
func (r *Run) LogHash() string {
	h := sha256.New()
	for _, l := range r.Log {
		h.Write([]byte(l))
		h.Write([]byte{'\n'})
	}
	return hex.EncodeToString(h.Sum(nil))[:16]
}

func (r *Run) sampleState() {
	if r.W == nil {
		return
	}
	s := r.W.AbstractState()
	if s == "" {
		return
	}
	r.States[s] = struct{}{}
	if r.lastState != "" && r.lastState != s {
		r.Trans[r.lastState+" -> "+s] = struct{}{}
	}
	r.lastState = s
}

var schedTrace = os.Getenv("VERIF_SCHED_TRACE") != ""

func shortSig(s string) string {
	if i := strings.Index(s, "<"); i > 0 {
		s = s[:i]
	}
	if i := strings.LastIndex(s, "/"); i >= 0 {
		s = s[i+1:]
	}
	return s
}

func (r *Run) oldestHoldAge() time.Duration {
	var age time.Duration
	for _, h := range r.Holds {
		if h.W != nil && !h.Released {
			if a := time.Since(h.At); a > age {
				age = a
			}
		}
	}
	return age
}
