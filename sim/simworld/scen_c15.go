package simworld

import (
	"fmt"
	"sort"
	"strings"
)

// C15: platform lifecycle events form a well-nested, truthful trace. The recording EventsAPI is on in every
// full-stack scenario; this check re-runs the scenario families of C03-C09 (and the swarm of C07) and judges the trace.
func init() {
	Scenarios["C15"] = scenC15
}

var c15Families = []string{"C03", "C04", "C05", "C06", "C09", "C07", "C01"}

func scenC15(r *Run, job *Job) {
	fam := job.Profile
	if fam == "" {
		fam = c15Families[r.T.Draw(len(c15Families))]
	}
	if fam == "C07" && len(r.Sites) == 0 {
		// no inventory requested for this property: the swarm runs without inventory-drawn holds
	}
	sub := *job
	sub.Profile = ""
	func() {
		defer func() {
			// a violation of the family's own property is reported by that property's check, here only the trace is judged
			if e := recover(); e != nil {
				if _, ok := e.(failSentinel); ok && r.Trouble == nil {
					if r.Viol != nil {
						r.Logf("(family oracle %s reported: %s - not judged here)", fam, r.Viol.Rule)
						r.Viol = nil
					}
					return
				}
				panic(e)
			}
		}()
		Scenarios[fam](r, &sub)
	}()
	r.Desc = "C15/" + fam + ": " + r.Desc
	if r.W == nil || r.W.Eng == nil {
		r.Troublef("C15: family %s built no world", fam)
	}
	r.Known = zombieAPIRequest(r, r.W)
	judgeEvents(r, r.W, r.W.Eng)
}

// judgeEvents checks grammar and truthfulness of the recorded platform events.
func judgeEvents(r *Run, w *World, e *Engine) {
	evs := w.Ev.All()
	faults := collectFaults(w, e)
	// --- init blocks ---
	type block struct {
		start, report int // indices
	}
	i := 0
	nInit := 0
	lastGen := 0
	for i < len(evs) {
		ev := evs[i]
		if ev.Kind != "InitStart" {
			if ev.Kind == "ExtensionInit" || ev.Kind == "InitRuntimeDone" || ev.Kind == "InitReport" {
				r.Failf("C15.grammar", "%s at %s (step %d) outside an init-start .. init-report block", ev.Kind, fmtDur(ev.At), ev.Step)
			}
			i++
			continue
		}
		nInit++
		phase := ev.Phase
		wantPhase := "invoke"
		if nInit == 1 {
			wantPhase = "init"
		}
		r.Check(phase == wantPhase, "C15.phase", "initialisation #%d is tagged phase %q, expected %q", nInit, phase, wantPhase)
		j := i + 1
		nRTDone := 0
		var extLines []PlatEv
		var rtDone *PlatEv
		closed := false
		for ; j < len(evs); j++ {
			x := evs[j]
			if x.Kind == "ExtensionInit" {
				extLines = append(extLines, x)
				continue
			}
			if x.Kind == "InitRuntimeDone" {
				nRTDone++
				xx := x
				rtDone = &xx
				r.Check(x.Phase == phase, "C15.phase", "init-runtime-done of initialisation #%d is tagged %q, init-start was %q", nInit, x.Phase, phase)
				continue
			}
			if x.Kind == "InitReport" {
				r.Check(x.Phase == phase, "C15.phase", "init-report of initialisation #%d is tagged %q, init-start was %q", nInit, x.Phase, phase)
				closed = true
				break
			}
			if x.Kind == "InitStart" {
				r.Failf("C15.grammar", "initialisation #%d (started at step %d) has no init-report before the next init-start at step %d", nInit, ev.Step, x.Step)
			}
			if x.Kind == "InvokeRuntimeDone" {
				// the end of an invocation (also the one a reset reports) is not part of an initialisation
				r.Failf("C15.grammar", "invoke runtime-done (status %s) at step %d inside the init-start .. init-report block of initialisation #%d", x.Status, x.Step, nInit)
			}
			// other events (ImageErrorLog, InvokeStart of a failed inline init, ...) may interleave
		}
		if !closed {
			// still running at the end of the scenario (e.g. a stalled party): nothing more to say
			break
		}
		r.NonTriv = true
		r.Check(nRTDone <= 1, "C15.grammar", "initialisation #%d emitted %d init-runtime-done events", nInit, nRTDone)
		report := evs[j]
		// which generation is this? the one whose first exec request falls into [start step, report step]
		// (generations only grow: an initialisation that follows a failed one within the same step - a runtime that
		// could not be launched, retried at once by the invocation - is not the earlier one)
		gen := 0
		for _, q := range w.Sup.Requests() {
			if q.Kind == "exec" && q.Step >= ev.Step && q.Step <= report.Step && genOf(q.Name) > lastGen {
				gen = genOf(q.Name)
				break
			}
		}
		if gen != 0 {
			lastGen = gen
		}
		// extension status lines: one per extension known at that moment
		if gen != 0 {
			known := map[string]*RegRec{}
			created := map[string]bool{}
			for _, q := range w.Sup.Requests() {
				if q.Kind == "exec" && genOf(q.Name) == gen && strings.HasPrefix(q.Name, "extension-") && q.Step <= report.Step {
					n := strings.TrimPrefix(q.Name, "extension-")
					n = n[:strings.LastIndex(n, "-")]
					created[n] = true
				}
			}
			for _, a := range e.Actors() {
				if a.IsRT || a.P.Gen != gen {
					continue
				}
				for k := range a.Regs {
					rg := &a.Regs[k]
					if rg.Step <= report.Step {
						known[rg.Name] = rg
						created[rg.Name] = true // internal registrations create the extension
					}
				}
			}
			// a registration submitted in full by a process that died before it could read the answer may or may not
			// have been processed: such a name is neither required nor forbidden, and its state line is not judged
			maybe := map[string]bool{}
			for _, a := range e.Actors() {
				if a.IsRT || a.P.Gen != gen {
					continue
				}
				for _, c := range a.Calls {
					if c.Tag == "ext-register" && c.Done && c.Err != nil && !a.P.Alive && c.StartStep <= report.Step {
						maybe[strings.TrimSpace(c.ReqHdr["Lambda-Extension-Name"])] = true
					}
				}
			}
			var want, got []string
			for n := range created {
				if !maybe[n] {
					want = append(want, n)
				}
			}
			for _, x := range extLines {
				if !maybe[x.Ext.AgentName] {
					got = append(got, x.Ext.AgentName)
				}
			}
			sort.Strings(want)
			sort.Strings(got)
			if strings.Join(want, ",") != strings.Join(got, ",") && !r.heldDuring(ev.Step, report.Step) {
				r.Failf("C15.extension-lines", "initialisation #%d (generation %d) reported extension status lines for %v, the extensions known at that moment are %v", nInit, gen, got, want)
			}
			for _, x := range extLines {
				a := known[x.Ext.AgentName]
				if a == nil && maybe[x.Ext.AgentName] {
					continue
				}
				if a == nil {
					r.Check(x.Ext.State == "Started" || x.Ext.State == "LaunchError", "C15.extension-state", "extension %s never registered but its status line says %q", x.Ext.AgentName, x.Ext.State)
					continue
				}
				if a.Step >= x.Step || r.heldDuring(a.Step, x.Step) {
					// registered in the very step the lines were assembled in, or while the assembling goroutine was
					// descheduled half-way through the agents: either snapshot is truthful
					continue
				}
				r.Check(x.Ext.State != "Started" && x.Ext.State != "LaunchError", "C15.extension-state", "extension %s had registered at step %d but its status line at step %d says %q", x.Ext.AgentName, a.Step, x.Step, x.Ext.State)
				subs := uniqSorted(a.Events)
				gotSubs := uniqSorted(x.Ext.Subscriptions)
				r.Check(strings.Join(subs, ",") == strings.Join(gotSubs, ","), "C15.extension-subscriptions", "extension %s subscribed to %v, its status line says %v", x.Ext.AgentName, subs, gotSubs)
			}
			// init-runtime-done truthfulness
			if rtDone != nil {
				rt := rtActor(e, gen)
				if rtDone.Status == "success" {
					polled := rt != nil && rt.FirstPoll > 0 && rt.FirstPoll <= rtDone.Step
					restorePolled := false
					if rt != nil {
						for _, c := range rt.Calls {
							if c.Tag == "rt-restorenext" && c.StartStep <= rtDone.Step {
								restorePolled = true
							}
						}
					}
					r.Check(polled || restorePolled, "C15.false-success", "init-runtime-done of initialisation #%d (generation %d) says success at step %d but the runtime had not polled", nInit, gen, rtDone.Step)
					r.Check(rtDone.ErrorType == "", "C15.false-success", "init-runtime-done success carries error type %q", rtDone.ErrorType)
				} else {
					ok := false
					first := ""
					for _, f := range faults {
						if f.gen == gen && f.step <= rtDone.Step {
							if first == "" {
								first = f.typ
							}
							if f.typ == rtDone.ErrorType && f.step == faultStepOf(faults, gen, first) {
								ok = true
							}
						}
					}
					if first != "" && rtDone.ErrorType == first {
						ok = true
					}
					if first == "" {
						ok = ok || rtDone.ErrorType == "Runtime.Unknown"
					}
					if !ok && first != "" && r.heldBetween(faultStepOf(faults, gen, first), rtDone.Step) {
						// a goroutine of the emulator (the events watcher, say) was deliberately descheduled between the
						// delivery of the first fault and this event: the order in which the emulator learned of the faults
						// delivered meanwhile is the order in which its goroutines got to run, any of them may be "first"
						for _, f := range faults {
							if f.gen == gen && f.step <= rtDone.Step && f.typ == rtDone.ErrorType {
								ok = true
								r.Probe("error-type:order-decided-by-a-hold")
							}
						}
					}
					r.Check(ok, "C15.error-type", "init-runtime-done of initialisation #%d (generation %d) carries error type %q, the first fault delivered was %q", nInit, gen, rtDone.ErrorType, first)
				}
			}
		}
		// an initialisation run inline by an invocation belongs to that invocation: its start line follows
		if phase == "invoke" {
			for k := j + 1; k < len(evs); k++ {
				if evs[k].Kind == "InvokeStart" {
					r.Probe("inline-init-followed-by-start")
					break
				}
				if evs[k].Kind == "InitStart" || evs[k].Kind == "InvokeRuntimeDone" {
					r.Failf("C15.invoke-start", "initialisation #%d ran inside an invocation (phase invoke, report at step %d) but no invoke-start follows it before the %s at step %d", nInit, report.Step, evs[k].Kind, evs[k].Step)
				}
			}
		}
		i = j + 1
	}
	// --- invocations ---
	starts := map[string]int{}
	var order []PlatEv
	for _, ev := range evs {
		if ev.Kind == "InvokeStart" {
			starts[ev.RequestID]++
			order = append(order, ev)
		}
	}
	for _, inv := range w.Invokes {
		if inv.Dispatched {
			r.Check(starts[inv.ReqID] == 1, "C15.invoke-start", "dispatched invocation %d (id %s) has %d invoke-start events", inv.N, inv.ReqID, starts[inv.ReqID])
		}
	}
	for id, n := range starts {
		r.Check(n <= 1, "C15.invoke-start", "request id %s has %d invoke-start events", id, n)
	}
	// runtime-done: at most one after each start, success only if the runtime really finished
	lastStart := -1
	doneSince := 0
	for k, ev := range evs {
		switch ev.Kind {
		case "InvokeStart":
			lastStart, doneSince = k, 0
		case "InvokeRuntimeDone":
			r.Check(lastStart >= 0, "C15.grammar", "invoke runtime-done at step %d without a preceding invoke-start", ev.Step)
			doneSince++
			r.Check(doneSince <= 1, "C15.grammar", "more than one invoke runtime-done after the invoke-start at step %d", evs[lastStart].Step)
			if ev.Status == "success" && lastStart >= 0 {
				id := evs[lastStart].RequestID
				var inv *Invocation
				for _, x := range w.Invokes {
					if x.ReqID == id {
						inv = x
					}
				}
				ok := false
				if inv != nil && inv.AnswerKind != "" && inv.AnswerStep <= ev.Step {
					gen := genServing(w, e, inv)
					if rt := rtActor(e, gen); rt != nil {
						if s := returnedToNext(rt, id); s > 0 && s <= ev.Step {
							ok = true
						}
					}
				}
				r.Check(ok, "C15.false-success", "invoke runtime-done says success at step %d for request %s, but the runtime had not posted its response and returned to next", ev.Step, id)
				r.NonTriv = true
			}
		}
	}
}

func faultStepOf(fs []faultRec, gen int, typ string) int {
	for _, f := range fs {
		if f.gen == gen && f.typ == typ {
			return f.step
		}
	}
	return -1
}

// heldBetween reports whether a deliberately held goroutine was parked at some moment between the two steps.
func (r *Run) heldBetween(from, to int) bool {
	for _, h := range r.Holds {
		if h.W != nil && h.AtStep <= to && (!h.Released || h.RelStep >= from) {
			return true
		}
	}
	return false
}

// heldDuring reports whether a deliberately held goroutine could have delayed effects between two steps.
func (r *Run) heldDuring(from, to int) bool {
	for _, h := range r.Holds {
		if h.W != nil && h.AtStep <= to {
			return true
		}
	}
	return false
}

var _ = fmt.Sprintf

func uniqSorted(in []string) []string {
	m := map[string]bool{}
	for _, x := range in {
		m[x] = true
	}
	out := make([]string, 0, len(m))
	for x := range m {
		out = append(out, x)
	}
	sort.Strings(out)
	return out
}
