package simworld

import (
	"context"
	"errors"
	"fmt"
	"time"

	"go.amzn.com/lambda/core"
	"go.amzn.com/lambda/interop"
)

// C11: the barrier primitive behaves as an atomic counting latch. Primitive-level simulation: one core.Gate (or a
// flow object built from several) inside the bubble, operations drawn from the tape and released one lock
// acquisition at a time by the scheduler, compared with an abstract latch after every operation.
func init() {
	Scenarios["C11"] = scenC11
}

type latch struct {
	count, arrived int
	cancelled      bool
	err            error
}

func (l *latch) open() bool { return l.arrived == l.count || l.cancelled }

type c11Waiter struct {
	id        int
	gate      int
	startStep int
	returned  bool
	retStep   int
	ret       error
}

var errC11 = errors.New("c11-cancel-error")

func scenC11(r *Run, job *Job) {
	t := r.T
	profile := job.Profile
	if profile == "" {
		profile = []string{"gate", "gate", "initflow", "invokeflow"}[t.Draw(4)]
	}
	switch t.Draw(3) {
	case 1:
		r.ReorderNum, r.ReorderDen = 1, 3
	case 2:
		r.ReorderNum, r.ReorderDen = 2, 3
	}
	if t.Chance(1, 2) {
		// a woken waiter is held before it re-checks the condition while other operations proceed
		r.AddHold("AwaitGateCondition", 1+t.Draw(4), 1+t.Draw(4))
	}
	depth := 8 + t.Draw(33)
	// gates under test and their models
	var gates []core.Gate
	var models []*latch
	var names []string
	var initFlow core.InitFlowSynchronization
	var invokeFlow core.InvokeFlowSynchronization
	switch profile {
	case "gate":
		c := t.Draw(5)
		gates = []core.Gate{core.NewGate(uint16(c))}
		models = []*latch{{count: c}}
		names = []string{"gate"}
	case "initflow":
		initFlow = core.NewInitFlowSynchronization()
		// externalAgentsRegistered(0), runtimeReady(1), agentReady(max), runtimeRestoreReady(1)
		models = []*latch{{count: 0}, {count: 1}, {count: 65535}, {count: 1}}
		names = []string{"extRegistered", "runtimeReady", "agentsReady", "restoreReady"}
	case "invokeflow":
		invokeFlow = core.NewInvokeFlowSynchronization()
		// runtimeReady(1), runtimeResponse(1), agentReady(max)
		models = []*latch{{count: 1}, {count: 1}, {count: 65535}}
		names = []string{"runtimeReady", "runtimeResponse", "agentsReady"}
	}
	var waiters []*c11Waiter
	var deadlineW *c11Waiter
	var deadlineAt time.Duration
	live := func() int {
		n := 0
		for _, w := range waiters {
			if !w.returned {
				n++
			}
		}
		return n
	}
	r.Desc = fmt.Sprintf("C11 %s depth=%d reorder=%d/%d holds=%d", profile, depth, r.ReorderNum, r.ReorderDen, len(r.Holds))
	r.Logf("%s", r.Desc)
	await := func(g int) error {
		switch profile {
		case "gate":
			return gates[g].AwaitGateCondition()
		case "initflow":
			switch g {
			case 0:
				return initFlow.AwaitExternalAgentsRegistered()
			case 1:
				return initFlow.AwaitRuntimeReady()
			case 2:
				return initFlow.AwaitAgentsReady()
			default:
				return initFlow.AwaitRuntimeRestoreReady()
			}
		default:
			switch g {
			case 0:
				return invokeFlow.AwaitRuntimeReady()
			case 1:
				return invokeFlow.AwaitRuntimeResponse()
			default:
				return invokeFlow.AwaitAgentsReady()
			}
		}
	}
	var mid []latch
	checkWaiters := func(prev []latch, what string) {
		if r.HeldNow() {
			return // a deliberately delayed waiter has not re-checked yet
		}
		for _, w := range waiters {
			m := models[w.gate]
			if !w.returned {
				if m.open() {
					r.Failf("C11.stuck-waiter", "after %s: waiter %d on %s is still blocked although arrived=%d count=%d cancelled=%v", what, w.id, names[w.gate], m.arrived, m.count, m.cancelled)
				}
				continue
			}
			if w.retStep != r.Step {
				continue
			}
			// returned in this step: its verdict must match the model before or after this operation
			ok := false
			cands := []latch{prev[w.gate], *m}
			if mid != nil {
				cands = append(cands, mid[w.gate]) // a flow operation made of two gate operations: the state in between
			}
			for _, st := range cands {
				if w.ret == nil && st.arrived == st.count && !st.cancelled {
					ok = true
				}
				if w.ret != nil && st.cancelled {
					want := st.err
					if want == nil {
						want = core.ErrGateCanceled
					}
					if w.ret == want {
						ok = true
					}
				}
			}
			r.Check(ok, "C11.wrong-verdict", "after %s: waiter %d on %s returned %v, model before: %+v after: %+v", what, w.id, names[w.gate], w.ret, prev[w.gate], *m)
			r.NonTriv = true
		}
	}
	for i := 0; i < depth; i++ {
		mid = nil
		prev := make([]latch, len(models))
		for k, m := range models {
			prev[k] = *m
		}
		if deadlineW != nil && deadlineW.returned {
			deadlineW = nil
		}
		g := t.Draw(len(models))
		m := models[g]
		var got, want error
		what := ""
		done := false
		run := func(f func() error) {
			r.NextStep()
			r.Go(func() { got = f(); done = true })
			r.Settle()
			if !done && r.HeldNow() {
				r.ReleaseHolds()
				r.Settle()
			}
			r.Check(done, "C11.operation-blocked", "%s did not complete", what)
		}
		switch t.Weighted(5, 3, 2, 2, 1, 3, 1, 1, 2, 2) {
		case 9: // a count change and an arrival at the same moment: the outcome must be that of one of the two orders
			if profile != "gate" {
				continue
			}
			c := m.arrived + t.Draw(3) // around the arrivals made: the interesting range
			what = fmt.Sprintf("set-count(%s,%d) || arrive", names[g], c)
			type outcome struct {
				setErr, arrErr bool
				st             latch
			}
			serial := func(setFirst bool) outcome {
				x := *m
				var o outcome
				doSet := func() {
					if c < x.arrived {
						o.setErr = true
					} else {
						x.count = c
					}
				}
				doArr := func() {
					if x.arrived == x.count {
						o.arrErr = true
					} else {
						x.arrived++
					}
				}
				if setFirst {
					doSet()
					doArr()
				} else {
					doArr()
					doSet()
				}
				o.st = x
				return o
			}
			oa, ob := serial(true), serial(false)
			var setRes, arrRes error
			var fin [2]bool
			r.NextStep()
			r.Go(func() { setRes = gates[g].SetCount(uint16(c)); fin[0] = true })
			r.Go(func() { arrRes = gates[g].WalkThrough(); fin[1] = true })
			r.Settle()
			if !(fin[0] && fin[1]) && r.HeldNow() {
				r.ReleaseHolds()
				r.Settle()
			}
			r.Check(fin[0] && fin[1], "C11.operation-blocked", "%s did not complete", what)
			// the state between the two operations, as a waiter released in this step may have seen it
			between := func(setFirst bool) latch {
				x := prev[g]
				if setFirst {
					if c >= x.arrived {
						x.count = c
					}
				} else if x.arrived != x.count {
					x.arrived++
				}
				return x
			}
			mid = make([]latch, len(models))
			for k, x := range models {
				mid[k] = *x
			}
			switch {
			case (setRes != nil) == oa.setErr && (arrRes != nil) == oa.arrErr:
				*m = oa.st
				mid[g] = between(true)
				if (setRes != nil) == ob.setErr && (arrRes != nil) == ob.arrErr {
					// both orders explain the verdicts: a waiter may have seen either intermediate state
					if b := between(false); b.arrived == b.count {
						mid[g] = b
					}
				}
			case (setRes != nil) == ob.setErr && (arrRes != nil) == ob.arrErr:
				*m = ob.st
				mid[g] = between(false)
			default:
				r.Failf("C11.concurrent-verdict", "%s returned set=%v arrive=%v; set first gives set-refused=%v arrive-refused=%v, arrive first gives set-refused=%v arrive-refused=%v (arrived=%d count=%d before)", what, setRes, arrRes, oa.setErr, oa.arrErr, ob.setErr, ob.arrErr, prev[g].arrived, prev[g].count)
			}
			r.Fault("concurrent-count-change-and-arrival")
		case 8: // two arrivals at the same moment (two goroutines; their lock acquisitions interleave)
			what = "arrive x2 (" + names[g] + ")"
			wantErrs := 0
			for k := 0; k < 2; k++ {
				if m.arrived == m.count {
					wantErrs++
				} else {
					m.arrived++
				}
			}
			var res [2]error
			var fin [2]bool
			arrive := func() error {
				switch profile {
				case "gate":
					return gates[g].WalkThrough()
				case "initflow":
					switch g {
					case 0:
						return initFlow.ExternalAgentRegistered()
					case 1:
						return initFlow.RuntimeReady()
					case 2:
						return initFlow.AgentReady()
					default:
						return initFlow.RuntimeRestoreReady()
					}
				default:
					switch g {
					case 0:
						return invokeFlow.RuntimeReady(nil)
					case 1:
						return invokeFlow.RuntimeResponse(nil)
					default:
						return invokeFlow.AgentReady()
					}
				}
			}
			r.NextStep()
			for k := 0; k < 2; k++ {
				k := k
				r.Go(func() { res[k] = arrive(); fin[k] = true })
			}
			r.Settle()
			if !(fin[0] && fin[1]) && r.HeldNow() {
				r.ReleaseHolds()
				r.Settle()
			}
			r.Check(fin[0] && fin[1], "C11.operation-blocked", "%s did not complete", what)
			gotErrs := 0
			for _, e := range res {
				if e != nil {
					r.Check(e == core.ErrGateIntegrity, "C11.arrive-verdict", "%s returned %v", what, e)
					gotErrs++
				}
			}
			r.Check(gotErrs == wantErrs, "C11.arrive-verdict", "%s: %d of the two arrivals were refused, the latch refuses %d (arrived=%d count=%d before)", what, gotErrs, wantErrs, prev[g].arrived, prev[g].count)
			r.Fault("concurrent-arrivals")
		case 0: // arrive
			what = "arrive(" + names[g] + ")"
			if m.arrived == m.count {
				want = core.ErrGateIntegrity
			} else {
				m.arrived++
			}
			run(func() error {
				switch profile {
				case "gate":
					return gates[g].WalkThrough()
				case "initflow":
					switch g {
					case 0:
						return initFlow.ExternalAgentRegistered()
					case 1:
						return initFlow.RuntimeReady()
					case 2:
						return initFlow.AgentReady()
					default:
						return initFlow.RuntimeRestoreReady()
					}
				default:
					switch g {
					case 0:
						return invokeFlow.RuntimeReady(nil)
					case 1:
						return invokeFlow.RuntimeResponse(nil)
					default:
						return invokeFlow.AgentReady()
					}
				}
			})
			r.Check(got == want, "C11.arrive-verdict", "%s returned %v, model says %v (arrived=%d count=%d)", what, got, want, prev[g].arrived, prev[g].count)
		case 1: // set count (only the gates whose count is settable in flows)
			c := t.Draw(5)
			if profile == "initflow" {
				g = []int{0, 2}[t.Draw(2)]
			} else if profile == "invokeflow" {
				g = 2
			}
			m = models[g]
			what = fmt.Sprintf("set-count(%s,%d)", names[g], c)
			if c < m.arrived {
				want = core.ErrGateIntegrity
			} else {
				m.count = c
			}
			run(func() error {
				switch profile {
				case "gate":
					return gates[g].SetCount(uint16(c))
				case "initflow":
					if g == 0 {
						return initFlow.SetExternalAgentsRegisterCount(uint16(c))
					}
					return initFlow.SetAgentsReadyCount(uint16(c))
				default:
					return invokeFlow.SetAgentsReadyCount(uint16(c))
				}
			})
			r.Check(got == want, "C11.set-count-verdict", "%s returned %v, model says %v (arrived=%d)", what, got, want, prev[g].arrived)
		case 2: // re-arm
			if profile == "initflow" {
				continue // the init flow has no re-arm
			}
			what = "re-arm"
			if profile == "gate" {
				if !m.cancelled {
					m.arrived = 0
				}
				run(func() error { gates[g].Reset(); return nil })
			} else {
				for _, x := range models {
					if !x.cancelled {
						x.arrived = 0
					}
				}
				run(func() error { return invokeFlow.InitializeBarriers() })
			}
		case 3: // cancel
			var e error
			if t.Chance(1, 2) {
				e = errC11
			}
			what = fmt.Sprintf("cancel(%v)", e)
			if profile == "gate" {
				m.cancelled, m.err = true, e
				run(func() error { gates[g].CancelWithError(e); return nil })
			} else {
				for _, x := range models {
					x.cancelled, x.err = true, e
				}
				run(func() error {
					if profile == "initflow" {
						initFlow.CancelWithError(e)
					} else {
						invokeFlow.CancelWithError(e)
					}
					return nil
				})
			}
		case 4: // clear
			what = "clear"
			if profile == "gate" {
				m.cancelled, m.arrived, m.err = false, 0, nil
				run(func() error { gates[g].Clear(); return nil })
			} else {
				for _, x := range models {
					x.cancelled, x.arrived, x.err = false, 0, nil
				}
				if profile == "initflow" {
					// the init flow clears its agents-ready gate and then re-arms its count: two gate operations
					mid = make([]latch, len(models))
					for k, x := range models {
						mid[k] = *x
					}
					models[2].count = 65535 // agents of the next initialisation may report before the count is known
				}
				run(func() error {
					if profile == "initflow" {
						initFlow.Clear()
					} else {
						invokeFlow.Clear()
					}
					return nil
				})
			}
		case 6: // register (raise the expected count)
			if profile != "gate" {
				continue
			}
			c := t.Draw(3)
			what = fmt.Sprintf("register(%d)", c)
			m.count += c
			run(func() error { gates[g].Register(uint16(c)); return nil })
		case 7: // a waiter with a deadline on the init flow's runtime-ready barrier, or the passage of time
			if profile != "initflow" {
				continue
			}
			if deadlineW == nil && live() < 3 {
				d := time.Duration(1+t.Draw(3)) * 10 * time.Millisecond
				w := &c11Waiter{id: len(waiters) + 1, gate: 1}
				waiters = append(waiters, w)
				deadlineW, deadlineAt = w, r.Now()+d
				what = fmt.Sprintf("start waiter %d on runtimeReady with deadline %v", w.id, d)
				r.NextStep()
				r.Go(func() {
					ctx, cancel := context.WithTimeout(context.Background(), d)
					defer cancel()
					err := initFlow.AwaitRuntimeReadyWithDeadline(ctx)
					w.ret, w.returned, w.retStep = err, true, r.Step
				})
				r.Settle()
			} else {
				what = "10ms pass"
				r.NextStep()
				r.Sleep(10 * time.Millisecond)
				r.Settle()
			}
			if deadlineW != nil && !deadlineW.returned && r.Now() >= deadlineAt && r.HeldNow() {
				// a deliberately descheduled goroutine may be sitting on the gate's lock (parked on its way into the
				// wait): the waiter that gave up at its deadline gets through once that goroutine runs again
				r.ReleaseHolds()
				r.Settle()
			}
			if deadlineW != nil && !deadlineW.returned && r.Now() >= deadlineAt {
				r.Failf("C11.deadline-ignored", "waiter %d is still parked %v after its deadline", deadlineW.id, r.Now()-deadlineAt)
			}
			if deadlineW != nil && deadlineW.returned && r.Now() >= deadlineAt && deadlineW.ret == interop.ErrRestoreHookTimeout {
				// the deadline cancels the whole flow with the restore-hook timeout error
				for _, x := range models {
					x.cancelled, x.err = true, interop.ErrRestoreHookTimeout
				}
				r.Fault("deadline-expired")
				deadlineW = nil
			}
		case 5: // start a waiter
			if live() >= 3 {
				continue
			}
			w := &c11Waiter{id: len(waiters) + 1, gate: g}
			waiters = append(waiters, w)
			what = fmt.Sprintf("start waiter %d on %s", w.id, names[g])
			r.NextStep()
			w.startStep = r.Step
			gi := g
			r.Go(func() {
				err := await(gi)
				w.ret, w.returned, w.retStep = err, true, r.Step
			})
			r.Settle()
		}
		r.Logf("op %s -> %v | %s", what, got, c11Dump(models, names))
		checkWaiters(prev, what)
	}
	r.ReleaseHolds()
	r.Settle()
	for _, w := range waiters {
		if !w.returned && models[w.gate].open() {
			r.Failf("C11.stuck-waiter", "at the end: waiter %d on %s is still blocked although arrived=%d count=%d cancelled=%v", w.id, names[w.gate], models[w.gate].arrived, models[w.gate].count, models[w.gate].cancelled)
		}
	}
}

func c11Dump(ms []*latch, names []string) string {
	s := ""
	for i, m := range ms {
		s += fmt.Sprintf("%s{a=%d c=%d x=%v} ", names[i], m.arrived, m.count, m.cancelled)
	}
	return s
}
