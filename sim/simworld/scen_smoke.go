package simworld

import "time"

func init() {
	Scenarios["SMOKE"] = func(r *Run, job *Job) {
		w := r.NewWorld(WorldCfg{TimeoutSec: 3, ExtFiles: []string{"ext1"}}, job.Seed)
		inv := w.Invoke([]byte("hello"), "", "")
		// extension launched first
		for _, p := range w.Sup.All() {
			r.Logf("proc %s", p.Name)
		}
		ep := w.Sup.Proc("extension-ext1-1")
		if ep == nil {
			r.Troublef("no ext proc")
		}
		ea := w.NewActor(ep, "ext1", false)
		ea.Register("ext1", []string{"INVOKE", "SHUTDOWN"}, nil)
		rp := w.Sup.Proc("runtime-1")
		if rp == nil {
			r.Troublef("no runtime proc")
		}
		ra := w.NewActor(rp, "rt", true)
		ea.ExtNext()
		ra.Next()
		r.Logf("rt deliveries=%d ext deliveries=%d", len(ra.Deliveries), len(ea.Deliveries))
		ra.Response(ra.CurReqID, []byte("world"), nil)
		ra.Next()
		ea.ExtNext()
		r.Logf("caller: %s", inv.Call.String())
		inv2 := w.Invoke([]byte("second"), "", "")
		r.SleepUntil(10*time.Second, func() bool { return inv2.Call.Done })
		r.Logf("caller2: %s", inv2.Call.String())
		for _, q := range w.Sup.Requests() {
			r.Logf("sup %s at %s", q.String(), fmtDur(q.At))
		}
	}
}
