package simworld

import (
	"bytes"
	"fmt"
	"sort"
	"time"
)

// C10: at most one invocation in flight; extra callers are refused harmlessly.
func init() {
	Scenarios["C10"] = scenC10
}

var c10Phases = []string{"during-init", "runtime-working", "after-response", "during-timeout-reset", "during-failure-reset", "lock-window", "reset-tail", "double-reset", "during-upload", "caller-gone"}

// lock sites on the tail of rapidcore.Server.Reset, after the sandbox was reset: state clearing and the hand-back
var c10ResetTailSites = []string{"Server).Release<go.amzn.com/lambda/rapidcore.(*Server).Reset", "Server).Release<go.amzn.com/lambda/rapidcore.(*Server).Clear", "endReset", "setRapidPhase<go.amzn.com/lambda/rapidcore.(*Server).Reset", "setRuntimeState<go.amzn.com/lambda/rapidcore.(*Server).Reset", "Server).Clear"}

var c10HoldSites = []string{"SetInvokeTimeout", "setNewInvokeContext", "setReplyStream", "getInitFailuresChan", "setRapidPhase", "setInitFailuresChan", "Server).Release", "HandleInvoke", "GetInvokeTimeout"}

func scenC10(r *Run, job *Job) {
	t := r.T
	timeoutSec := 2 + t.Draw(3)
	exts := DrawExts(t, 2, 0)
	phase := t.Draw(len(c10Phases))
	nExtra := 1 + t.Draw(2)
	victim := 1 + t.Draw(2) // the planned invocation during which the extra callers arrive
	if phase == 0 {
		victim = 1
	}
	holdSite := ""
	if c10Phases[phase] == "lock-window" {
		holdSite = c10HoldSites[t.Draw(len(c10HoldSites))]
		r.AddHold(holdSite, 1+t.Draw(3), 2+t.Draw(3))
	}
	var lateExit time.Duration
	if c10Phases[phase] == "double-reset" {
		// the victim's runtime exits shortly before the expiry and an extension ignores SHUTDOWN: the failure reset is
		// still running when the timeout starts its own
		victim = 1
		lateExit = time.Duration(timeoutSec)*time.Second - []time.Duration{1500 * time.Millisecond, 500 * time.Millisecond, 100 * time.Millisecond}[t.Draw(3)]
		has := false
		for _, x := range exts {
			if !x.Internal {
				has = true
			}
		}
		if !has {
			exts = append(exts, ExtCfg{Name: "e1", Subs: []string{"INVOKE", "SHUTDOWN"}})
		}
		nExtra = 2
	}
	if c10Phases[phase] == "during-upload" {
		victim = 1
	}
	resetTailMode := ""
	if c10Phases[phase] == "reset-tail" {
		holdSite = c10ResetTailSites[t.Draw(len(c10ResetTailSites))]
		r.AddHold(holdSite, 1+t.Draw(3), 2+t.Draw(3))
		resetTailMode = []string{"stall", "exit", "late-exit"}[t.Draw(3)]
		if resetTailMode == "late-exit" {
			// two resets overlap (the runtime exits shortly before the expiry, an extension ignores SHUTDOWN); the hold
			// may hit either of them
			victim = 1
			lateExit = time.Duration(timeoutSec)*time.Second - []time.Duration{1500 * time.Millisecond, 500 * time.Millisecond, 100 * time.Millisecond}[t.Draw(3)]
			has := false
			for _, x := range exts {
				if !x.Internal {
					has = true
				}
			}
			if !has {
				exts = append(exts, ExtCfg{Name: "e1", Subs: []string{"INVOKE", "SHUTDOWN"}})
			}
			resetTailMode = ""
		}
	}
	if t.Chance(1, 3) {
		r.ReorderNum, r.ReorderDen = 1, 4
	}
	w := r.NewWorld(WorldCfg{TimeoutSec: timeoutSec, ExtFiles: ExtFiles(exts)}, job.Seed)
	e := w.NewEngine()
	e.HoldAcrossTimers = len(r.Holds) > 0 && t.Chance(1, 3)
	e.Bound = time.Duration(4*(timeoutSec+8)) * time.Second
	mode := map[string]string{"during-timeout-reset": "stall", "during-failure-reset": "exit", "reset-tail": resetTailMode}[c10Phases[phase]]
	e.BehavFor = BehavForExts(exts, func(p *Proc, b *Behav) {
		if p.IsRT {
			b.PerInv = func(inv *Invocation) *InvBehav {
				if inv.N == victim && mode != "" {
					return &InvBehav{Mode: mode, Exit: 1}
				}
				return nil
			}
			if lateExit > 0 && w.GenOrdinal(p.Gen) == 1 {
				b.Script, b.ThenHealthy = []Op{{Kind: "next"}, {Kind: "until", D: lateExit}, {Kind: "exit", N: 1}}, false
			}
			if c10Phases[phase] == "during-upload" && w.GenOrdinal(p.Gen) == 1 {
				// the answer to the victim is uploaded in two halves, 300 ms apart
				b.Script = []Op{{Kind: "next"}, {Kind: "stalled-upload", Arg: "response", D: 300 * time.Millisecond}}
			}
			if c10Phases[phase] == "runtime-working" || c10Phases[phase] == "caller-gone" {
				b.Stalls = map[int]time.Duration{2*victim - 1: 300 * time.Millisecond} // before the response to the victim
			}
		} else if lateExit > 0 {
			b.OnShutdown = "ignore"
		} else if c10Phases[phase] == "after-response" {
			b.Stalls = map[int]time.Duration{1 + victim: 300 * time.Millisecond} // the extension comes back late
		}
	})
	nPlan := 3
	for i := 0; i < nPlan; i++ {
		e.Plan = append(e.Plan, InvSpec{Payload: Tagged(fmt.Sprintf("plan%d", i+1), 24)})
	}
	made := 0
	callerGone := false
	var goneAt time.Duration
	// the planned callers that follow come once the abandoned invocation has had the time to finish
	e.Hold = func() bool { return callerGone && r.Now() < goneAt+time.Second }
	inPhase := func() bool {
		var v *Invocation
		for _, inv := range w.Invokes {
			if !inv.Extra && inv.N == victim {
				v = inv
			}
		}
		if v == nil || !v.Call.Pending() && !(callerGone && v.AnswerKind == "") {
			return false
		}
		switch c10Phases[phase] {
		case "during-init":
			return !v.Dispatched
		case "runtime-working":
			return v.Dispatched && v.AnswerKind == ""
		case "after-response":
			return v.AnswerKind != ""
		case "during-timeout-reset", "during-failure-reset":
			for _, q := range w.Sup.Requests() {
				if (q.Kind == "kill" || q.Kind == "terminate") && q.Step >= v.ArrivalStep {
					return true
				}
			}
			return false
		case "caller-gone":
			// the victim's caller hangs up while the runtime is working; the invocation stays in flight
			if v.Dispatched && v.AnswerKind == "" && !callerGone {
				callerGone = true
				goneAt = r.Now()
				r.NextStep()
				r.Fault("caller-hangs-up")
				v.Conn.Close()
				r.Settle()
			}
			return callerGone && v.AnswerKind == ""
		case "double-reset":
			// the first extra caller arrives when the teardown starts, the second one 1.2 s later
			var first time.Duration = -1
			for _, q := range w.Sup.Requests() {
				if (q.Kind == "kill" || q.Kind == "terminate") && q.Step >= v.ArrivalStep && (first < 0 || q.At < first) {
					first = q.At
				}
			}
			return first >= 0 && r.Now() >= first+time.Duration(made)*1200*time.Millisecond
		case "during-upload":
			for _, a := range e.Actors() {
				if a.IsRT && a.Cur != nil && a.Cur.Tag == "rt-stalled-upload" && a.Cur.Pending() {
					return true
				}
			}
			return false
		case "lock-window":
			return r.HeldNow()
		case "reset-tail":
			return r.HeldNow()
		}
		return false
	}
	e.Extra = func() []action {
		if made >= nExtra || !inPhase() {
			return nil
		}
		return []action{{"extra-caller", func() {
			made++
			inv := w.Invoke(Tagged(fmt.Sprintf("extra%d", made), 24), "", "")
			inv.Extra = true
			inv.N = 100 + made
			r.Probe("extra-caller:" + c10Phases[phase])
		}}}
	}
	e.ExtraFirst = true
	r.Desc = fmt.Sprintf("C10 T=%ds phase=%s victim=%d extras=%d hold=%q exts=%v reorder=%d/%d", timeoutSec, c10Phases[phase], victim, nExtra, holdSite, exts, r.ReorderNum, r.ReorderDen)
	r.Logf("%s", r.Desc)
	e.Stuck = func() { r.Failf("C10.hang", "plan did not finish within the bound") }
	e.Run()
	r.ReleaseHolds()
	r.Settle()
	// ---- oracle ----
	timeoutBody := []byte(timeoutText(timeoutSec))
	var planned, extras []*Invocation
	for _, inv := range w.Invokes {
		if inv.Extra {
			extras = append(extras, inv)
		} else {
			planned = append(planned, inv)
		}
	}
	lockWindow := c10Phases[phase] == "lock-window" || c10Phases[phase] == "reset-tail"
	served := func(inv *Invocation) bool {
		want := []byte(fmt.Sprintf("resp-%d:", inv.N) + string(inv.Payload))
		return inv.Dispatched && inv.Call.Is(200) && bytes.Equal(inv.Call.Body, want)
	}
	refused := func(inv *Invocation) bool {
		return !inv.Dispatched && inv.Call.Done && inv.Call.Err == nil && inv.Call.Status >= 400 && inv.Call.Status < 500
	}
	raced := map[*Invocation]bool{} // planned invocation that lost the race for the reservation to an extra caller
	for _, x := range extras {
		r.Check(x.Call.Done && x.Call.Err == nil, "C10.extra-hang", "extra caller %d was not answered: %s", x.N, x.Call)
		r.NonTriv = true
		if lockWindow {
			// the callers race inside a lock window of the first caller's own path: any serialisation is fine, as long
			// as each caller is either served exactly or refused harmlessly (disjointness is checked below)
			r.Check(served(x) || refused(x), "C10.extra-outcome", "extra caller %d was neither served exactly nor refused with a client error: %s", x.N, x.Call)
			if served(x) {
				for _, p := range planned {
					if refused(p) && p.ArrivalStep <= x.Call.EndStep && p.Call.EndStep >= x.ArrivalStep {
						raced[p] = true
						r.Probe("race-won-by-later-caller")
					}
				}
			}
			continue
		}
		r.Check(!x.Dispatched, "C10.two-in-flight", "extra caller %d arrived while another invocation was in flight and was delivered to the runtime", x.N)
		r.Check(x.Call.Status >= 400 && x.Call.Status < 500, "C10.extra-status", "extra caller %d got %d %s, expected a client error", x.N, x.Call.Status, summarize(x.Call.Body))
		if !r.holdEverFired() {
			r.Check(x.Call.EndStep == x.ArrivalStep, "C10.extra-not-immediate", "extra caller %d arrived at step %d but was refused only at step %d", x.N, x.ArrivalStep, x.Call.EndStep)
		}
	}
	// a refused caller has no effect on the event of the invocation in flight
	for _, a := range e.Actors() {
		if !a.IsRT {
			continue
		}
		for _, d := range a.Deliveries {
			if d.Inv != nil && d.Type == "invoke" {
				r.Check(bytes.Equal(d.Body, d.Inv.Payload), "C10.effect-on-event", "invocation %d: the runtime was handed %s, its caller posted %s", d.Inv.N, summarize(d.Body), summarize(d.Inv.Payload))
			}
		}
	}
	// intervals of dispatched invocations pairwise disjoint
	var disp []*Invocation
	for _, inv := range w.Invokes {
		if inv.Dispatched {
			disp = append(disp, inv)
		}
	}
	sort.SliceStable(disp, func(i, j int) bool { return disp[i].DispStep < disp[j].DispStep })
	for i := 1; i < len(disp); i++ {
		a, b := disp[i-1], disp[i]
		end := completionStep(w, e, a)
		r.Check(b.DispStep >= end, "C10.two-in-flight", "invocation %d dispatched at step %d while invocation %d was in flight until step %d", b.N, b.DispStep, a.N, end)
	}
	// no effect on the planned invocations
	for _, inv := range planned {
		if callerGone && inv.N == victim {
			continue // its caller hung up: there is nobody to answer
		}
		r.Check(inv.Call.Done && inv.Call.Err == nil, "C10.hang", "planned invocation %d: %s", inv.N, inv.Call)
		st, body := inv.Call.Status, inv.Call.Body
		if raced[inv] {
			continue
		}
		switch {
		case inv.N == victim && mode == "stall":
			r.Check(st == 200 && bytes.Equal(body, timeoutBody), "C10.effect-on-victim", "victim %d (runtime stalls): %d %s", inv.N, st, summarize(body))
		case inv.N == victim && lateExit > 0:
			eb, ok := ParseErr(body)
			r.Check(st == 200 && bytes.Equal(body, timeoutBody) || st >= 500 && ok && eb.ErrorType == "Runtime.ExitError", "C10.effect-on-victim", "victim %d (runtime exits shortly before the expiry): %d %s", inv.N, st, summarize(body))
		case inv.N == victim && c10Phases[phase] == "during-upload":
			want := []byte("stalled-upload-body-0123456789-0123456789")
			r.Check(st == 200 && bytes.Equal(body, want), "C10.effect-on-victim", "victim %d (answer uploaded in two halves): %d %s", inv.N, st, summarize(body))
		case inv.N == victim && mode == "exit":
			eb, ok := ParseErr(body)
			r.Check(st >= 500 && ok && eb.ErrorType == "Runtime.ExitError", "C10.effect-on-victim", "victim %d (runtime exits): %d %s", inv.N, st, summarize(body))
		default:
			want := []byte(fmt.Sprintf("resp-%d:", inv.N) + string(inv.Payload))
			r.Check(st == 200 && bytes.Equal(body, want), "C10.effect-on-planned", "planned invocation %d: %d %s (runtime answered %q)", inv.N, st, summarize(body), inv.AnswerKind)
		}
	}
	r.Check(len(planned) == nPlan, "C10.hang", "only %d planned invocations were made", len(planned))
}

func (r *Run) holdEverFired() bool {
	for _, h := range r.Holds {
		if h.W != nil {
			return true
		}
	}
	return false
}

// completionStep is the step at which an invocation stopped being in flight: for a successful one the step at
// which the last party (runtime, INVOKE subscribers) returned to next, otherwise the step of its outcome.
func completionStep(w *World, e *Engine, inv *Invocation) int {
	if inv.Dispatched && inv.AnswerKind == "" && inv.Call.Done {
		// ended by a reset (timeout, crash): in flight until the processes that served it are gone and reported.
		// (The front end answers the caller up to 100 ms later; a reservation cannot succeed before the reset has
		// handed the server back, so a later dispatch in between is not an overlap.)
		gen, last := genServing(w, e, inv), 0
		for _, p := range w.Sup.All() {
			if p.Gen == gen {
				if !p.EventSent {
					return inv.Call.EndStep
				}
				if p.EventStep > last {
					last = p.EventStep
				}
			}
		}
		if last > 0 && last < inv.Call.EndStep {
			return last
		}
		return inv.Call.EndStep
	}
	if !inv.Dispatched || inv.AnswerKind == "" {
		if inv.Call.Done {
			return inv.Call.EndStep
		}
		return 1 << 30
	}
	gen := genServing(w, e, inv)
	rt := rtActor(e, gen)
	if rt == nil {
		return inv.Call.EndStep
	}
	last := returnedToNext(rt, inv.ReqID)
	if last <= 0 {
		if inv.Call.Done {
			return inv.Call.EndStep
		}
		return 1 << 30
	}
	if inv.AnswerStep > last {
		last = inv.AnswerStep
	}
	subs, _ := subscribedActors(e, nil, gen)
	for _, a := range subs {
		s := returnedToNext(a, inv.ReqID)
		if s <= 0 {
			if inv.Call.Done {
				return inv.Call.EndStep
			}
			return 1 << 30
		}
		if s > last {
			last = s
		}
	}
	if inv.Call.Done && inv.Call.EndStep < last {
		return inv.Call.EndStep
	}
	return last
}
