package simworld

import (
	"bytes"
	"context"
	"encoding/base64"
	"errors"
	"fmt"
	"io"
	"net"
	"net/http"
	"sort"
	"strconv"
	"strings"
	"time"

	"github.com/go-chi/chi"
	"go.amzn.com/lambda/core/bandwidthlimiter"
	"go.amzn.com/lambda/core/directinvoke"
	"go.amzn.com/lambda/interop"
	"go.amzn.com/lambda/metering"
)

// C17: direct-invoke streaming path - stateless parsing, faithful copy, rate bound. Package-level simulation:
// the real directinvoke + bandwidthlimiter code inside the bubble (fake clock for the refill ticker, the bucket
// mutex scheduler-owned), a recording flushing ResponseWriter, a payload reader with a chunk / delay / fault
// plan, and the harness in the role of rapidcore's Reset.
func init() {
	Scenarios["C17"] = scenC17
}

// c17Writer is the recording ResponseWriter (the connection to the invoker).
type c17Writer struct {
	r         *Run
	hdr       http.Header
	status    int
	sentHdr   http.Header // snapshot at WriteHeader
	data      []byte
	stamps    []c17Stamp
	failAfter int // >=0: the connection breaks after this many body bytes
	latency   time.Duration
	flushes   int
	broke     bool
}

type c17Stamp struct {
	at  time.Duration
	cum int
}

func (w *c17Writer) Header() http.Header { return w.hdr }
func (w *c17Writer) WriteHeader(s int) {
	if w.status == 0 {
		w.status = s
		w.sentHdr = w.hdr.Clone()
	}
}
func (w *c17Writer) Flush() { w.flushes++ }
func (w *c17Writer) Write(p []byte) (int, error) {
	if w.status == 0 {
		w.WriteHeader(200)
	}
	if w.latency > 0 {
		time.Sleep(w.latency)
	}
	n := len(p)
	var err error
	if w.failAfter >= 0 && len(w.data)+n > w.failAfter {
		n = w.failAfter - len(w.data)
		if n < 0 {
			n = 0
		}
		err = errors.New("write: broken pipe")
		w.broke = true
	}
	w.data = append(w.data, p[:n]...)
	w.stamps = append(w.stamps, c17Stamp{at: w.r.Now(), cum: len(w.data)})
	return n, err
}

// trailer returns the value of a trailer (a declared header set after the status line went out).
func (w *c17Writer) trailer(name string) (string, bool) {
	declared := false
	for _, v := range w.hdr.Values("Trailer") {
		if strings.EqualFold(v, name) {
			declared = true
		}
	}
	if !declared {
		return "", false
	}
	return w.hdr.Get(name), w.hdr.Get(name) != ""
}

// c17Reader is the runtime's response body.
type c17Reader struct {
	r        *Run
	payload  []byte
	off      int
	chunks   []int
	delays   []time.Duration
	i        int
	errAt    int // >=0: a read error once this many bytes were delivered
	stuckAt  int // >=0: blocks for ever at this offset until the connection is closed
	closed   chan struct{}
	firstAt  time.Duration
	started  bool
	faulted  bool
	readErrs int
}

func (b *c17Reader) Read(p []byte) (int, error) {
	if !b.started {
		b.started, b.firstAt = true, b.r.Now()
	}
	select {
	case <-b.closed:
		b.faulted = true
		return 0, errors.New("read: connection closed")
	default:
	}
	if b.errAt >= 0 && b.off >= b.errAt {
		b.faulted = true
		return 0, errors.New("read: connection reset by peer")
	}
	if b.stuckAt >= 0 && b.off >= b.stuckAt {
		<-b.closed
		b.faulted = true
		return 0, errors.New("read: connection closed")
	}
	if b.off >= len(b.payload) {
		return 0, io.EOF
	}
	n := len(p)
	if b.i < len(b.chunks) {
		if d := b.delays[b.i]; d > 0 {
			// the runtime is slow to produce the next chunk; closing the connection ends the wait
			tm := time.NewTimer(d)
			select {
			case <-tm.C:
			case <-b.closed:
				tm.Stop()
				b.faulted = true
				return 0, errors.New("read: connection closed")
			}
		}
		if b.chunks[b.i] < n {
			n = b.chunks[b.i]
		}
		b.i++
	}
	if rem := len(b.payload) - b.off; rem < n {
		n = rem
	}
	if b.errAt >= 0 && b.off+n > b.errAt {
		n = b.errAt - b.off
	}
	if b.stuckAt >= 0 && b.off+n > b.stuckAt {
		n = b.stuckAt - b.off
	}
	copy(p, b.payload[b.off:b.off+n])
	b.off += n
	return n, nil
}

type c17Conn struct {
	net.Conn
	closed chan struct{}
	done   bool
}

func (c *c17Conn) Close() error {
	if !c.done {
		c.done = true
		close(c.closed)
	}
	return nil
}

type c17Req struct {
	cust, max, mode, rate, burst string
	idOK, tokOK, verOK, fresh    bool
	contentType, arn             string
}

// c17Ref is the stateless reference: what a request means on its own.
type c17Ref struct {
	errs      map[string]bool
	limit     int64
	streaming bool
	rate      int64
	burst     int64
}

func c17Reference(q c17Req) c17Ref {
	ref := c17Ref{errs: map[string]bool{}, limit: 6*1024*1024 + 100, rate: 2 * 1024 * 1024, burst: 6 * 1024 * 1024}
	if q.cust != "" {
		raw, err := base64.StdEncoding.DecodeString(q.cust)
		if err != nil || !strings.HasPrefix(strings.TrimSpace(string(raw)), "{") {
			ref.errs["ErrMalformedCustomerHeaders"] = true
		}
	}
	if q.max != "" {
		n, err := strconv.ParseInt(q.max, 10, 64)
		if err != nil || n < -1 {
			ref.errs["ErrInvalidMaxPayloadSize"] = true
		} else {
			ref.limit = n
		}
	}
	switch strings.ToLower(q.mode) {
	case "":
	case "buffered":
	case "streaming":
		ref.streaming = true
	default:
		ref.errs["ErrInvalidInvokeResponseMode"] = true
	}
	if ref.limit == -1 {
		ref.streaming = true
	}
	if ref.streaming {
		if q.rate != "" {
			n, err := strconv.ParseInt(q.rate, 10, 64)
			if err != nil || n < 32*1024 || n > 64*1024*1024 {
				ref.errs["ErrInvalidResponseBandwidthRate"] = true
			} else {
				ref.rate = n
			}
		}
		if q.burst != "" {
			n, err := strconv.ParseInt(q.burst, 10, 64)
			if err != nil || n < 32*1024 || n > 64*1024*1024 {
				ref.errs["ErrInvalidResponseBandwidthBurstSize"] = true
			} else {
				ref.burst = n
			}
		}
	}
	if !q.idOK {
		ref.errs["ErrInvalidInvokeID"] = true
	}
	if !q.tokOK {
		ref.errs["ErrInvalidReservationToken"] = true
	}
	if !q.verOK {
		ref.errs["ErrInvalidFunctionVersion"] = true
	}
	if !q.fresh {
		ref.errs["ErrReservationExpired"] = true
	}
	return ref
}

func c17Pick(t *Tape, absentNum, den int, vals ...string) string {
	if t.Chance(absentNum, den) {
		return ""
	}
	return vals[t.Draw(len(vals))]
}

func c17Payload(n int, salt int) []byte {
	b := make([]byte, n)
	for i := range b {
		b[i] = byte((i*131 + salt*17 + i/251) & 0xff)
	}
	return b
}

func scenC17(r *Run, job *Job) {
	t := r.T
	switch t.Draw(3) {
	case 1:
		r.ReorderNum, r.ReorderDen = 1, 3
	case 2:
		r.ReorderNum, r.ReorderDen = 2, 3
	}
	if job.Profile == "limiter" {
		c17Limiter(r, t)
		return
	}
	nReq := 1 + t.Draw(4)
	r.Desc = fmt.Sprintf("C17 requests=%d reorder=%d/%d", nReq, r.ReorderNum, r.ReorderDen)
	r.Logf("%s", r.Desc)
	// the settings an earlier direct invoke of this process left behind (package variables)
	directinvoke.InvokeResponseMode = []interop.InvokeResponseMode{interop.InvokeResponseModeBuffered, interop.InvokeResponseModeBuffered, interop.InvokeResponseModeStreaming}[t.Draw(3)]
	directinvoke.MaxDirectResponseSize = []int64{interop.MaxPayloadSize, interop.MaxPayloadSize, -1, 5}[t.Draw(4)]
	directinvoke.ResponseBandwidthRate = []int64{interop.ResponseBandwidthRate, 32768}[t.Draw(2)]
	directinvoke.ResponseBandwidthBurstSize = []int64{interop.ResponseBandwidthBurstSize, 32768}[t.Draw(2)]
	r.Logf("left behind: mode=%s max=%d rate=%d burst=%d", directinvoke.InvokeResponseMode, directinvoke.MaxDirectResponseSize, directinvoke.ResponseBandwidthRate, directinvoke.ResponseBandwidthBurstSize)
	for n := 1; n <= nReq; n++ {
		c17Request(r, t, n)
	}
}

func c17Request(r *Run, t *Tape, n int) {
	q := c17Req{idOK: true, tokOK: true, verOK: true, fresh: true}
	custOK := base64.StdEncoding.EncodeToString([]byte(`{"Cognito-Identity-Id":"cid","Cognito-Identity-Pool-Id":"pool","Client-Context":"ctx"}`))
	q.cust = c17Pick(t, 3, 4, custOK)
	q.max = c17Pick(t, 2, 5, "-1", "-1", "0", "1", "7", "100", "4096", "70000", "300000")
	q.mode = c17Pick(t, 2, 5, "Buffered", "Streaming", "streaming", "STREAMING", "buffered")
	if pre := c17Reference(q); pre.streaming {
		q.rate = c17Pick(t, 1, 3, "32768", "32768", "65536", "262144", "2097152", "67108864")
		q.burst = c17Pick(t, 1, 3, "32768", "32768", "65536", "131072", "6291456", "67108864")
	}
	defects := t.Weighted(14, 5, 1)
	for d := 0; d < defects; d++ {
		switch t.Draw(9) {
		case 0:
			q.cust = []string{"!!!not-base64", base64.StdEncoding.EncodeToString([]byte("not json"))}[t.Draw(2)]
		case 1:
			q.max = []string{"abc", "-2", "1.5", "9223372036854775808"}[t.Draw(4)]
		case 2:
			q.mode = []string{"Chunked", "stream", " "}[t.Draw(3)]
		case 3:
			if c17Reference(q).streaming {
				q.rate = []string{"32767", "67108865", "fast", "-1", "0"}[t.Draw(5)]
			}
		case 4:
			if c17Reference(q).streaming {
				q.burst = []string{"32767", "67108865", "big", "-1", "0"}[t.Draw(5)]
			}
		case 5:
			q.idOK = false
		case 6:
			q.tokOK = false
		case 7:
			q.verOK = false
		case 8:
			q.fresh = false
		}
	}
	q.contentType = []string{"application/json", "", "text/plain"}[t.Draw(3)]
	q.arn = fmt.Sprintf("arn:aws:lambda:sim:1:function:f%d", n)
	ref := c17Reference(q)

	r.NextStep()
	now := metering.Monotime()
	token := interop.Token{ReservationToken: fmt.Sprintf("tok-%d", n), InvokeID: fmt.Sprintf("inv-%d", n), VersionID: "7",
		FunctionTimeout: 3 * time.Second, TraceID: fmt.Sprintf("trace-%d", n), LambdaSegmentID: fmt.Sprintf("seg-%d", n), InvackDeadlineNs: now + int64(time.Second)}
	if !q.fresh {
		token.InvackDeadlineNs = now - 1
	}
	conn := &c17Conn{closed: make(chan struct{})}
	req, _ := http.NewRequest("POST", "/invoke/x", strings.NewReader("event"))
	set := func(k, v string) {
		if v != "" {
			req.Header.Set(k, v)
		}
	}
	set(directinvoke.CustomerHeadersHeader, q.cust)
	set(directinvoke.MaxPayloadSizeHeader, q.max)
	set(directinvoke.InvokeResponseModeHeader, q.mode)
	set(directinvoke.ResponseBandwidthRateHeader, q.rate)
	set(directinvoke.ResponseBandwidthBurstSizeHeader, q.burst)
	set(directinvoke.ContentTypeHeader, q.contentType)
	set(directinvoke.InvokedFunctionArnHeader, q.arn)
	id, tok, ver := token.InvokeID, token.ReservationToken, token.VersionID
	if !q.idOK {
		id = "someone-else"
	}
	if !q.tokOK {
		tok = "stale-token"
	}
	if !q.verOK {
		ver = "8"
	}
	set(directinvoke.InvokeIDHeader, id)
	set(directinvoke.VersionIDHeader, ver)
	rctx := chi.NewRouteContext()
	rctx.URLParams.Add("reservationtoken", tok)
	ctx := context.WithValue(req.Context(), chi.RouteCtxKey, rctx)
	ctx = context.WithValue(ctx, interop.HTTPConnKey, net.Conn(conn))
	req = req.WithContext(ctx)

	w := &c17Writer{r: r, hdr: http.Header{}, failAfter: -1}
	r.Logf("request %d: max=%q mode=%q rate=%q burst=%q cust=%d id=%v tok=%v ver=%v fresh=%v", n, q.max, q.mode, q.rate, q.burst, len(q.cust), q.idOK, q.tokOK, q.verOK, q.fresh)
	inv, err := directinvoke.ReceiveDirectInvoke(w, req, token)
	r.NonTriv = true
	if len(ref.errs) > 0 {
		r.Probe("parse-refused")
		r.Check(err != nil, "C17.accepted-invalid", "request %d was accepted although %v applies", n, keysOf(ref.errs))
		r.Check(ref.errs[err.Error()], "C17.wrong-refusal", "request %d was refused with %v, applicable: %v", n, err, keysOf(ref.errs))
		r.Check(w.status == 400 && w.sentHdr.Get(directinvoke.ErrorTypeHeader) == err.Error(), "C17.refusal-rendering", "request %d: refusal rendered as status %d Error-Type %q (error %v)", n, w.status, w.sentHdr.Get(directinvoke.ErrorTypeHeader), err)
		return
	}
	r.Probe("parse-ok")
	r.Check(err == nil, "C17.refused-valid", "request %d (max=%q mode=%q rate=%q burst=%q) was refused with %v", n, q.max, q.mode, q.rate, q.burst, err)
	wantMode := interop.InvokeResponseModeBuffered
	if ref.streaming {
		wantMode = interop.InvokeResponseModeStreaming
	}
	r.Check(inv.InvokeResponseMode == wantMode, "C17.mode-not-from-request", "request %d (mode header %q, max %q): parsed response mode %q, the request on its own means %q", n, q.mode, q.max, inv.InvokeResponseMode, wantMode)
	r.Check(directinvoke.InvokeResponseMode == wantMode, "C17.mode-not-from-request", "request %d (mode header %q, max %q): effective response mode %q, the request on its own means %q", n, q.mode, q.max, directinvoke.InvokeResponseMode, wantMode)
	r.Check(directinvoke.MaxDirectResponseSize == ref.limit, "C17.limit-not-from-request", "request %d (max header %q): effective limit %d, expected %d", n, q.max, directinvoke.MaxDirectResponseSize, ref.limit)
	if ref.streaming {
		r.Check(directinvoke.ResponseBandwidthRate == ref.rate && directinvoke.ResponseBandwidthBurstSize == ref.burst, "C17.bucket-not-from-request", "request %d (rate %q burst %q): effective rate %d burst %d, expected %d / %d", n, q.rate, q.burst, directinvoke.ResponseBandwidthRate, directinvoke.ResponseBandwidthBurstSize, ref.rate, ref.burst)
	}
	wantDeadline := fmt.Sprintf("%d", now+token.FunctionTimeout.Nanoseconds())
	ok := inv.ID == token.InvokeID && inv.ReservationToken == token.ReservationToken && inv.VersionID == "7" && inv.InvokedFunctionArn == q.arn &&
		inv.ContentType == q.contentType && inv.TraceID == token.TraceID && inv.LambdaSegmentID == token.LambdaSegmentID && inv.DeadlineNs == wantDeadline && inv.InvokeReceivedTime == now
	if q.cust != "" {
		ok = ok && inv.CognitoIdentityID == "cid" && inv.CognitoIdentityPoolID == "pool" && inv.ClientContext == "ctx"
	} else {
		ok = ok && inv.CognitoIdentityID == "" && inv.CognitoIdentityPoolID == "" && inv.ClientContext == ""
	}
	r.Check(ok, "C17.parsed-record", "request %d: parsed record %+v does not match the request and its token", n, *inv)
	r.Check(w.hdr.Get(directinvoke.InvokeIDHeader) == token.InvokeID && w.hdr.Get(directinvoke.ReservationTokenHeader) == token.ReservationToken && w.hdr.Get(directinvoke.VersionIDHeader) == "7",
		"C17.response-headers", "request %d: response headers %v do not echo the token", n, w.hdr)
	declared := strings.Join(w.hdr.Values("Trailer"), ",")
	r.Check(strings.Contains(declared, directinvoke.EndOfResponseTrailer), "C17.trailer-undeclared", "request %d: End-Of-Response is not declared as a trailer (%q)", n, declared)
	if ref.streaming {
		r.Check(strings.Contains(declared, directinvoke.FunctionErrorTypeTrailer) && strings.Contains(declared, directinvoke.FunctionErrorBodyTrailer), "C17.trailer-undeclared", "request %d (streaming): the function error trailers are not declared (%q)", n, declared)
	}

	// ---- the response -------------------------------------------------------------------------------------
	var L int
	switch {
	case ref.limit >= 0 && ref.limit <= 400000 && t.Chance(3, 4):
		L = int(ref.limit) + []int{-2, -1, 0, 1, 2, 3, 70000}[t.Draw(7)]
		if L < 0 {
			L = 0
		}
	case ref.limit > 400000 && ref.limit >= 0 && t.Chance(1, 40):
		L = int(ref.limit) + []int{-1, 0, 1, 2}[t.Draw(4)] // around the default limit of 6 MiB + 100
	default:
		L = []int{0, 1, 100, 5000, 32768, 32769, 50000, 100000, 200000}[t.Draw(9)]
	}
	body := &c17Reader{r: r, payload: c17Payload(L, n), errAt: -1, stuckAt: -1, closed: conn.closed}
	nChunks := t.Draw(6)
	for i := 0; i < nChunks; i++ {
		body.chunks = append(body.chunks, []int{1, 2, 100, 4096, 32768, 40000, 100000}[t.Draw(7)])
		body.delays = append(body.delays, []time.Duration{0, 0, time.Millisecond, 130 * time.Millisecond, time.Second}[t.Draw(5)])
	}
	fault := "none"
	resetAfter := time.Duration(-1)
	isErrResp := t.Chance(1, 6)
	switch t.Weighted(6, 2, 2, 2, 2) {
	case 1:
		if L > 0 {
			body.errAt = t.Draw(L)
			fault = fmt.Sprintf("read-error@%d", body.errAt)
		}
	case 2:
		w.failAfter = t.Draw(L + 2)
		fault = fmt.Sprintf("write-error@%d", w.failAfter)
	case 3:
		resetAfter = []time.Duration{0, time.Millisecond, 125 * time.Millisecond, 126 * time.Millisecond, 500 * time.Millisecond, 2 * time.Second}[t.Draw(6)]
		fault = fmt.Sprintf("reset@%v", resetAfter)
	case 4:
		if !isErrResp {
			body.stuckAt = t.Draw(L + 1)
			resetAfter = []time.Duration{0, 125 * time.Millisecond, time.Second}[t.Draw(3)]
			fault = fmt.Sprintf("stuck@%d+reset@%v", body.stuckAt, resetAfter)
		}
	}
	if t.Chance(1, 5) {
		w.latency = []time.Duration{time.Millisecond, 50 * time.Millisecond}[t.Draw(2)]
	}
	add := map[string]string{directinvoke.ContentTypeHeader: "application/octet-stream"}
	if isErrResp {
		add[directinvoke.ErrorTypeHeader] = "Function.Boom"
	}
	trailers := http.Header{}
	interrupted := make(chan *interop.Reset)
	metricsCh := make(chan *interop.InvokeResponseMetrics)
	var sendErr error
	var sent, gotMetrics, resetTaken, resetDone bool
	var metrics *interop.InvokeResponseMetrics
	reason := []string{"timeout", "failure", "other"}[t.Draw(3)]
	reset := &interop.Reset{Reason: reason}
	r.Logf("response %d: %d bytes, limit %d, streaming=%v rate=%d burst=%d chunks=%v delays=%v fault=%s latency=%v error-response=%v", n, L, ref.limit, ref.streaming, ref.rate, ref.burst, body.chunks, body.delays, fault, w.latency, isErrResp)
	r.NextStep()
	start := r.Now()
	r.Go(func() { metrics = <-metricsCh; gotMetrics = true })
	var src io.Reader = body
	if isErrResp && body.errAt < 0 && body.stuckAt < 0 {
		// an error response was read completely by the /error handler: the copy source is a bytes.Reader (io.WriterTo)
		src = bytes.NewReader(body.payload)
		body.started, body.firstAt = true, start
		r.Probe("writer-to-source")
	}
	r.Go(func() {
		sendErr = directinvoke.SendDirectInvokeResponse(add, src, trailers, w, interrupted, metricsCh, &interop.CancellableRequest{Request: req}, !isErrResp, token.InvokeID)
		sent = true
	})
	fired := false
	var resetAt time.Duration
	fire := func() {
		fired = true
		r.NextStep()
		r.Go(func() {
			// rapidcore.Server.Reset: hand the reset to a streaming copy if one is listening
			select {
			case interrupted <- reset:
				resetTaken, resetAt = true, r.Now()
				<-interrupted
			default:
			}
			resetDone = true
		})
		r.Settle()
	}
	// how long an unthrottled, unfaulted copy may take at most
	budget := 2 * time.Second
	for _, d := range body.delays {
		budget += d
	}
	if ref.streaming {
		perTick := ref.rate * 125 / 1000
		over := int64(L) - ref.burst
		if over > 0 {
			budget += time.Duration(over/perTick+2) * 125 * time.Millisecond * 2
		}
		budget += time.Duration(L/32768+2) * 250 * time.Millisecond
	}
	budget += time.Duration(L/1000+1) * w.latency * 40
	if resetAfter >= 0 {
		if !r.SleepUntil(resetAfter, func() bool { return sent }) || resetAfter == 0 {
			if !sent {
				r.Fault("reset-during-copy")
			}
			fire()
		}
	}
	if !r.SleepUntil(budget, func() bool { return sent && gotMetrics }) {
		if body.stuckAt >= 0 && !resetTaken && !sent {
			// a body that never ends and no reset: nothing ends the copy, which is the invocation timeout's business
			r.Probe("stuck-without-reset")
			conn.Close()
			r.SleepUntil(budget, func() bool { return sent && gotMetrics })
		}
		r.Check(sent && gotMetrics, "C17.copy-does-not-terminate", "response %d (%d bytes, fault %s): the copy did not terminate within %v of fake time (sent=%v metrics=%v, forwarded %d bytes)", n, L, fault, budget, sent, gotMetrics, len(w.data))
	}
	if fired && !resetDone {
		r.SleepUntil(time.Second, func() bool { return resetDone })
		r.Check(resetDone, "C17.reset-handshake", "response %d: the reset was taken by the streaming copy but never acknowledged", n)
	}
	took := r.Now() - start
	if resetTaken {
		// a reset cuts the copy short: a write waiting for tokens completes and the next one finds the stream
		// cancelled; a read in progress ends with the closed connection
		// ... which may take as long as one write needs to collect its tokens
		chunk := int64(32768)
		if src != io.Reader(body) {
			chunk = ref.burst
			if int64(L) < chunk {
				chunk = int64(L)
			}
		}
		slack := time.Duration(chunk/(ref.rate*125/1000)+2)*125*time.Millisecond + 2*w.latency
		r.Check(r.Now()-resetAt <= slack, "C17.reset-not-prompt", "response %d: the copy went on for %v after the reset (%d bytes forwarded of %d)", n, r.Now()-resetAt, len(w.data), L)
	}
	// ---- oracle ----------------------------------------------------------------------------------------------
	full := L
	oversized := false
	if ref.limit >= 0 && int64(L) > ref.limit {
		full = int(ref.limit) + 1
		oversized = true
	}
	fwd := w.data
	r.Check(len(fwd) <= full && string(fwd) == string(body.payload[:len(fwd)]), "C17.bytes-altered", "response %d: forwarded %d bytes which are not a prefix of the first %d payload bytes", n, len(fwd), full)
	eor, has := w.trailer(directinvoke.EndOfResponseTrailer)
	r.Check(has, "C17.no-classification", "response %d: no End-Of-Response trailer (headers %v)", n, w.hdr)
	faulted := body.faulted || w.broke || resetTaken
	if body.faulted {
		r.Fault("read-error-or-closed-body")
	}
	if w.broke {
		r.Fault("invoker-connection-broken")
	}
	if resetTaken {
		r.Fault("reset-taken-by-streaming-copy")
	}
	switch eor {
	case directinvoke.EndOfResponseComplete:
		r.Check(!oversized && len(fwd) == L && !w.broke, "C17.false-complete", "response %d: classified Complete with %d of %d bytes forwarded (limit %d, fault %s)", n, len(fwd), L, ref.limit, fault)
		r.Check(sendErr == nil, "C17.error-mismatch", "response %d: Complete but the sender reports %v", n, sendErr)
	case directinvoke.EndOfResponseOversized:
		r.Check(oversized && len(fwd) == full, "C17.false-oversized", "response %d: classified Oversized with %d bytes forwarded of a %d byte payload, limit %d", n, len(fwd), L, ref.limit)
		_, isTL := sendErr.(*interop.ErrorResponseTooLargeDI)
		r.Check(isTL, "C17.error-mismatch", "response %d: Oversized but the sender reports %v", n, sendErr)
	case directinvoke.EndOfResponseTruncated:
		r.Check(faulted, "C17.false-truncated", "response %d: classified Truncated although no read error, write error or reset happened (%d of %d bytes forwarded)", n, len(fwd), L)
		_, isTr := sendErr.(*interop.ErrTruncatedResponse)
		r.Check(isTr, "C17.error-mismatch", "response %d: Truncated but the sender reports %v", n, sendErr)
	default:
		r.Failf("C17.no-classification", "response %d: End-Of-Response is %q", n, eor)
	}
	if !faulted {
		want := directinvoke.EndOfResponseComplete
		if oversized {
			want = directinvoke.EndOfResponseOversized
		}
		r.Check(eor == want && len(fwd) == full, "C17.classification", "response %d: %d byte payload, limit %d, no fault: classified %s with %d bytes forwarded, expected %s with %d", n, L, ref.limit, eor, len(fwd), want, full)
	} else if len(fwd) < full {
		r.Check(eor == directinvoke.EndOfResponseTruncated, "C17.classification", "response %d: only %d of %d bytes forwarded after %s, yet classified %s", n, len(fwd), full, fault, eor)
	}
	if ref.streaming && !isErrResp {
		et, _ := w.trailer(directinvoke.FunctionErrorTypeTrailer)
		switch {
		case resetTaken:
			want := map[string]string{"timeout": "Sandbox.Timeout", "failure": "Sandbox.Failure", "other": "Sandbox.Failure"}[reason]
			r.Check(et == want, "C17.error-trailer", "response %d: reset (%s) during the copy, error type trailer %q, expected %q", n, reason, et, want)
		case eor == directinvoke.EndOfResponseTruncated:
			r.Check(et != "", "C17.error-trailer", "response %d: Truncated without an error type trailer", n)
		case eor == directinvoke.EndOfResponseOversized:
			r.Check(et == "Function.ResponseSizeTooLarge", "C17.error-trailer", "response %d: Oversized with error type trailer %q", n, et)
		default:
			r.Check(et == "", "C17.error-trailer", "response %d: Complete with error type trailer %q", n, et)
		}
	}
	if metrics != nil && !w.broke {
		r.Check(metrics.ProducedBytes == int64(len(fwd)), "C17.metrics", "response %d: metrics say %d bytes produced, %d were forwarded", n, metrics.ProducedBytes, len(fwd))
	}
	if ref.streaming {
		// the token-bucket bound, measured from the first byte the runtime produced
		for _, s := range w.stamps {
			el := s.at - body.firstAt
			allowed := ref.burst + int64(float64(ref.rate)*el.Seconds()) + 1
			if int64(s.cum) > allowed {
				r.Failf("C17.rate-bound", "response %d: %d bytes had been forwarded %v after the first byte; burst %d + rate %d/s allow %d", n, s.cum, el, ref.burst, ref.rate, allowed)
			}
		}
		if int64(L) > ref.burst && !faulted {
			r.Probe("throttled")
		}
	}
	r.Logf("response %d done: %s, %d/%d bytes in %v, err=%v reset-taken=%v", n, eor, len(fwd), L, took, sendErr, resetTaken)
}

func keysOf(m map[string]bool) []string {
	var out []string
	for k := range m {
		out = append(out, k)
	}
	sort.Strings(out)
	return out
}

// c17Limiter drives the bandwidth limiter directly, with bucket parameters beyond what the direct-invoke headers allow.
func c17Limiter(r *Run, t *Tape) {
	capacity := []int64{1, 7, 100, 4096, 32768, 100000}[t.Draw(6)]
	initial := []int64{0, capacity / 2, capacity}[t.Draw(3)]
	refill := []int64{1, 3, 50, 1000, 40000}[t.Draw(5)]
	interval := []time.Duration{time.Millisecond, 10 * time.Millisecond, 125 * time.Millisecond, time.Second}[t.Draw(4)]
	if t.Chance(1, 12) {
		// invalid parameters are refused
		bad := [][4]int64{{0, 0, 1, 1}, {-1, 0, 1, 1}, {5, -1, 1, 1}, {5, 6, 1, 1}, {5, 5, 0, 1}, {5, 5, 1, 0}}[t.Draw(6)]
		_, err := bandwidthlimiter.NewBucket(bad[0], bad[1], bad[2], time.Duration(bad[3]))
		r.NonTriv = true
		r.Check(err != nil, "C17.bucket-parameters", "NewBucket%v was accepted", bad)
		return
	}
	maxTicks := int64(40 + t.Draw(400))
	L := int(initial + refill*int64(t.Draw(int(maxTicks)+1)))
	if t.Chance(1, 2) {
		L += t.Draw(int(capacity) + 1)
	}
	if L > 3000000 {
		L = 3000000
	}
	if int64(L) > initial+refill*maxTicks {
		L = int(initial + refill*maxTicks) // bound the number of refills needed
	}
	if int64(L) > initial+capacity*150 {
		L = int(initial + capacity*150) // every write is at most one capacity: bound the number of writes
	}
	if t.Chance(1, 10) {
		L = 0
	}
	r.Desc = fmt.Sprintf("C17 limiter cap=%d initial=%d refill=%d/%v L=%d", capacity, initial, refill, interval, L)
	r.Logf("%s", r.Desc)
	bucket, err := bandwidthlimiter.NewBucket(capacity, initial, refill, interval)
	if err != nil {
		r.Failf("C17.bucket-parameters", "NewBucket(%d,%d,%d,%v) refused: %v", capacity, initial, refill, interval, err)
	}
	w := &c17Writer{r: r, hdr: http.Header{}, failAfter: -1}
	if t.Chance(1, 5) {
		w.failAfter = t.Draw(L + 2)
	}
	if t.Chance(1, 6) {
		w.latency = []time.Duration{time.Millisecond, interval, interval + 1}[t.Draw(3)]
	}
	bw, err := bandwidthlimiter.NewBandwidthLimitingWriter(w, bucket)
	if err != nil {
		r.Failf("C17.bucket-parameters", "NewBandwidthLimitingWriter refused: %v", err)
	}
	body := &c17Reader{r: r, payload: c17Payload(L, int(capacity)), errAt: -1, stuckAt: -1, closed: make(chan struct{})}
	for i, n := 0, t.Draw(6); i < n; i++ {
		body.chunks = append(body.chunks, []int{1, 2, int(capacity), int(capacity) + 1, 4096, 40000, 1000000}[t.Draw(7)])
		body.delays = append(body.delays, []time.Duration{0, 0, time.Millisecond, interval, 3 * interval}[t.Draw(5)])
	}
	if t.Chance(1, 6) && L > 0 {
		body.errAt = t.Draw(L)
	}
	var src io.Reader = body
	r.NextStep()
	start := r.Now()
	if t.Chance(1, 2) && body.errAt < 0 {
		src = bytes.NewReader(body.payload)
		body.started, body.firstAt = true, start
		r.Probe("writer-to-source")
	}
	var copied int64
	var copyErr error
	done := false
	r.Go(func() { copied, copyErr = bandwidthlimiter.BandwidthLimitingCopy(bw, src); done = true })
	budget := 2*time.Second + time.Duration(int64(L)/refill+int64(L)/capacity+4)*interval*2
	for _, d := range body.delays {
		budget += d
	}
	budget += time.Duration(int64(L)/capacity+int64(L)/32768+2) * w.latency * 2
	ok := r.SleepUntil(budget, func() bool { return done })
	r.NonTriv = true
	r.Check(ok, "C17.copy-does-not-terminate", "limiter: %d bytes through cap=%d initial=%d refill=%d/%v did not terminate within %v (forwarded %d)", L, capacity, initial, refill, interval, budget, len(w.data))
	r.Check(len(w.data) <= L && string(w.data) == string(body.payload[:len(w.data)]), "C17.bytes-altered", "limiter: the %d forwarded bytes are not a prefix of the payload", len(w.data))
	faulted := body.faulted || w.broke
	if !faulted {
		r.Check(copyErr == nil && len(w.data) == L && copied == int64(L), "C17.classification", "limiter: no fault, yet %d of %d bytes forwarded (copied=%d, err=%v)", len(w.data), L, copied, copyErr)
	} else {
		r.Check(copyErr != nil, "C17.classification", "limiter: a fault fired (read=%v write=%v) but the copy reports success", body.faulted, w.broke)
		r.Fault("limiter-io-error")
	}
	prev := 0
	for _, s := range w.stamps {
		if int64(s.cum-prev) > capacity {
			r.Failf("C17.rate-bound", "limiter: a single write of %d bytes exceeds the bucket capacity %d", s.cum-prev, capacity)
		}
		prev = s.cum
		ticks := int64((s.at - body.firstAt) / interval)
		allowed := initial + refill*ticks
		if int64(s.cum) > allowed {
			r.Failf("C17.rate-bound", "limiter: %d bytes forwarded %v after the first byte; initial %d + %d refills of %d allow %d", s.cum, s.at-body.firstAt, initial, ticks, refill, allowed)
		}
	}
	if m := bw.GetMetrics(); m != nil && !w.broke {
		r.Check(m.ProducedBytes == int64(len(w.data)), "C17.metrics", "limiter: metrics say %d bytes, %d forwarded", m.ProducedBytes, len(w.data))
	}
	if int64(L) > initial {
		r.Probe("throttled")
	}
	r.Logf("limiter done: %d/%d bytes in %v err=%v", len(w.data), L, r.Now()-start, copyErr)
}
