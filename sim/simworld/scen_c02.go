package simworld

import (
	"bytes"
	"fmt"
	"strings"
	"time"
)

// C02: only the in-flight request id is accepted, and only once.
func init() {
	Scenarios["C02"] = scenC02
}

var c02Selectors = []string{"prev", "old", "unknown", "empty", "last"}

var c02ZombieSites = []string{"GetCurrentInvokeID", "registrationServiceImpl).GetRuntime", "Runtime).InvocationResponse", "Runtime).InvocationErrorResponse", "Server).SendResponse", "Server).SendErrorResponse", "setRuntimeState", "Runtime).ResponseSent", "LoadResponseSender", "LoadInteropServer"}

// lock sites on the interop server's failure path (FastInvoke's goroutine) before and at the submission of the
// default error response
var c02PlatformSites = []string{"getCachedInitErrorResponse<lambda/rapidcore.(*Server).FastInvoke.func1", "GetCurrentInvokeID<lambda/rapidcore.(*Server).trySendDefaultErrorResponse", "Server).SendErrorResponse<lambda/rapidcore.(*Server).trySendDefaultErrorResponse", "setRuntimeState<lambda/rapidcore.(*Server).SendErrorResponse<lambda/rapidcore.(*Server).trySendDefaultErrorResponse"}

func scenC02(r *Run, job *Job) {
	t := r.T
	profile := job.Profile
	if profile == "" {
		profile = []string{"adversary", "zombie"}[t.Draw(2)]
	}
	timeoutSec := 2 + t.Draw(3)
	exts := DrawExts(t, 1, 0)
	nInv := t.Range(3, 6)
	modes := make([]string, nInv)
	for i := range modes {
		modes[i] = []string{"ok", "ok", "ok", "error", "stall", "exit"}[t.Draw(6)]
	}
	modes[nInv-1] = "ok"
	if t.Chance(1, 3) {
		r.ReorderNum, r.ReorderDen = 1, 4
	}
	zombieAt, zombieSite := -1, ""
	zombieErr := false
	zombieNth, zombieSteps, zombieArmed, zombieAlive := 0, 0, false, false
	if profile == "zombie" {
		zombieAt = t.Draw(nInv - 1)
		modes[zombieAt] = "zombie"
		zombieSite = c02ZombieSites[t.Draw(len(c02ZombieSites))]
		zombieErr = t.Chance(1, 3)
		r.MaxHoldTime = 60 * time.Second // content-based oracle: long holds are fine
		// the hold is armed when the zombie's invocation reaches the runtime and counts the arrivals at the site from
		// then on (1st .. 4th: every lock acquisition of the submission's path through that function is a candidate,
		// however many there are in this tree)
		zombieNth, zombieSteps = 1+t.Draw(4), 3+t.Draw(25)
		// in a third of the runs the runtime does not die: it submits and waits for the verdict while the handler of
		// its submission is descheduled - across the invocation's timeout and the reset if the hold lasts
		zombieAlive = t.Chance(1, 3)
	}
	if profile == "platform" {
		// the platform's own submission for a failed invocation (the default error response sent by the interop
		// server's failure path) is the delayed one: the runtime exits, the goroutine that reports the failure to the
		// caller is descheduled - possibly across the timeout reset and into later invocations
		modes[t.Draw(nInv-1)] = "exit"
		zombieSite = c02PlatformSites[t.Draw(len(c02PlatformSites))]
		r.MaxHoldTime = 60 * time.Second
		r.AddHold(zombieSite, 1+t.Draw(2), 3+t.Draw(25))
	}
	w := r.NewWorld(WorldCfg{TimeoutSec: timeoutSec, ExtFiles: ExtFiles(exts)}, job.Seed)
	e := w.NewEngine()
	e.HoldAcrossTimers = profile == "platform" || zombieAlive
	e.Bound = time.Duration(nInv*(timeoutSec+8)+20) * time.Second
	// adversarial extras drawn up front so that they are part of the tape header
	type extra struct{ pre, post []Op }
	extras := make([]extra, nInv)
	for i := range extras {
		mk := func(pre bool) Op {
			n := len(c02Selectors)
			if pre {
				n-- // "last" before the answer is the in-flight id itself
			}
			sel := c02Selectors[t.Draw(n)]
			if t.Chance(1, 2) {
				return Op{Kind: "response", Arg: sel, Body: []byte(fmt.Sprintf("BOGUS-%d-%s", i+1, sel))}
			}
			return Op{Kind: "error", Arg: sel, Body: []byte(fmt.Sprintf("BOGUSERR-%d-%s", i+1, sel))}
		}
		for k := t.Draw(3); k > 0; k-- {
			extras[i].pre = append(extras[i].pre, mk(true))
		}
		for k := t.Draw(3); k > 0; k-- {
			extras[i].post = append(extras[i].post, mk(false))
		}
		if t.Chance(1, 3) {
			// the current id a second time right after the legitimate answer
			kind := []string{"response", "error"}[t.Draw(2)]
			extras[i].post = append([]Op{{Kind: kind, Arg: "last", Body: []byte(fmt.Sprintf("DUP-%d", i+1))}}, extras[i].post...)
		}
	}
	// concurrent duplicates: the legitimate answer of an "ok" invocation is submitted twice, on two connections (as
	// /response + /response or /error + /response with the same body); the handler of the first is descheduled at a
	// lock site while the second is handled
	races := make([]string, nInv)
	raceSites := make([]string, nInv)
	if profile == "adversary" {
		for i := range races {
			if modes[i] == "ok" && t.Chance(1, 4) {
				races[i] = []string{"response", "error", "slow-error", "slow-response"}[t.Draw(4)]
				// where the duplicate's handler is descheduled ("" = nowhere: it is answered before the real one starts)
				raceSites[i] = []string{"", "GetCurrentInvokeID", "registrationServiceImpl).GetRuntime", "core.(*Runtime).", "SetState", "GetState", "Server).SendResponse", "Server).SendErrorResponse", "ResponseSent", "setRuntimeState"}[t.Draw(10)]
			}
		}
	}
	e.BehavFor = BehavForExts(exts, func(p *Proc, b *Behav) {
		if !p.IsRT {
			return
		}
		b.PerInv = func(inv *Invocation) *InvBehav {
			if zombieAlive && zombieArmed && inv.N-1 != zombieAt {
				// the hold is meant for the handler of the zombie's submission: if it has not fired by now it never will
				for _, h := range r.Holds {
					if h.W == nil {
						h.Done = true
					}
				}
			}
			switch modes[inv.N-1] {
			case "ok":
				if races[inv.N-1] != "" {
					return &InvBehav{Body: []byte(fmt.Sprintf("resp-%d:", inv.N) + string(inv.Payload)), Race: races[inv.N-1], RaceSite: raceSites[inv.N-1]}
				}
			case "error":
				return &InvBehav{Mode: "error", ErrType: "Function.Sim", Body: []byte(fmt.Sprintf("ERR-%d", inv.N))}
			case "stall":
				return &InvBehav{Mode: "stall"}
			case "exit":
				return &InvBehav{Mode: "exit", Exit: 1}
			case "zombie":
				if zombieAlive {
					if !zombieArmed {
						zombieArmed = true
						// only the handler proper of a /response or /error submission (not the next poll the live
						// runtime makes afterwards)
						need := "rapi/handler.(*invocationResponseHandler)"
						if zombieErr {
							need = "rapi/handler.(*invocationErrorHandler)"
						}
						r.AddHold(zombieSite, zombieNth, zombieSteps).Need = need
					}
					if zombieErr {
						return &InvBehav{Mode: "error", ErrType: "Function.Sim", Body: []byte(fmt.Sprintf("ZOMBIE-%d", inv.N))}
					}
					return &InvBehav{Body: []byte(fmt.Sprintf("ZOMBIE-%d", inv.N))}
				}
			}
			return nil
		}
		b.Around = func(inv *Invocation) (pre, post []Op) {
			if modes[inv.N-1] == "zombie" && zombieAlive {
				return nil, nil
			}
			if modes[inv.N-1] == "zombie" {
				if !zombieArmed {
					zombieArmed = true
					r.AddHold(zombieSite, zombieNth, zombieSteps)
				}
				kind := "response-die"
				if zombieErr {
					kind = "error-die"
				}
				return []Op{{Kind: kind, Arg: "cur", N: 1, Body: []byte(fmt.Sprintf("ZOMBIE-%d", inv.N))}, {Kind: "stop"}}, nil
			}
			if profile == "zombie" || profile == "platform" {
				return nil, nil
			}
			x := extras[inv.N-1]
			if modes[inv.N-1] == "stall" || modes[inv.N-1] == "exit" {
				return x.pre, nil
			}
			return x.pre, x.post
		}
	})
	for i := 0; i < nInv; i++ {
		e.Plan = append(e.Plan, InvSpec{Payload: Tagged(fmt.Sprintf("ev%d", i+1), 16)})
	}
	r.Desc = fmt.Sprintf("C02 %s alive=%v T=%ds modes=%v zombieSite=%q exts=%v reorder=%d/%d", profile, zombieAlive, timeoutSec, modes, zombieSite, exts, r.ReorderNum, r.ReorderDen)
	r.Logf("%s", r.Desc)
	e.Stuck = func() { r.Failf("C02.hang", "plan did not finish within the bound") }
	e.Run()
	r.ReleaseHolds()
	r.Settle()
	// ---- oracle ----
	timeoutBody := []byte(timeoutText(timeoutSec))
	// classification for the known-findings file: which zombie site fired and what the visible symptom was
	if profile == "zombie" && r.holdEverFired() {
		sym := ""
		for _, a := range e.Actors() {
			if a.IsRT && a.ConnErrs > 0 && w.GenOrdinal(a.P.Gen) > 1 {
				sym = ":live-runtime-connection-dropped"
			}
		}
		for _, a := range e.Actors() {
			for _, c := range a.Calls {
				if a.IsRT && w.GenOrdinal(a.P.Gen) > 1 && c.Done && c.Err == nil && c.Status == 403 {
					sym += ":live-runtime-403"
				}
			}
		}
		sig := r.Holds[0].W.Sig
		class := "site:" + sig
		switch {
		case strings.Contains(sig, "Runtime).ResponseSent"):
			class = "after-accept-before-ResponseSent"
		case strings.Contains(sig, "LoadResponseSender") || strings.Contains(sig, "registrationServiceImpl).GetRuntime<lambda/rapi/handler.(*invocation"):
			class = "after-validator-before-state-transition"
		}
		r.Known = "zombie:" + class + sym
	}
	// reference register: every judged submission
	for _, a := range e.Actors() {
		if !a.IsRT {
			continue
		}
		for _, c := range a.Calls {
			if !c.Judged || !c.Done {
				continue
			}
			if c.Err != nil {
				r.Check(!a.P.Alive, "C02.connection-dropped", "%s: submission %s got no answer (%v) although its process is alive", a.Who, c.Path, c.Err)
				continue
			}
			if c.ExpectAccept {
				r.Check(c.Status == 202 || c.Status == 413, "C02.refused-in-flight", "%s: submission for the in-flight id was answered %d %s", a.Who, c.Status, summarize(c.Body))
			} else {
				r.Probe("bogus-submission")
				r.Check(c.Status >= 400 && c.Status < 500, "C02.accepted-not-in-flight", "%s: submission %s %s for an id that is not in flight was answered %d %s", a.Who, c.Method, c.Path, c.Status, summarize(c.Body))
				r.NonTriv = true
			}
		}
		// of two concurrent submissions for the in-flight id exactly one is accepted
		for _, c := range a.Calls {
			if c.Pair == nil || !c.Done || !c.Pair.Done || c.Err != nil || c.Pair.Err != nil {
				continue
			}
			acc := func(x *Call) bool { return x.Status == 202 }
			r.Probe("concurrent-pair-judged")
			r.NonTriv = true
			r.Check(acc(c) != acc(c.Pair), "C02.concurrent-duplicate", "%s: two concurrent submissions for the in-flight id were answered %d and %d (exactly one may be accepted)", a.Who, c.Status, c.Pair.Status)
			other := c.Pair
			if acc(c) {
				r.Check(other.Status >= 400 && other.Status < 500, "C02.concurrent-duplicate", "%s: the losing submission was answered %d", a.Who, other.Status)
			}
		}
		// the legitimate protocol calls of a live runtime are never refused
		for _, c := range a.Calls {
			if c.Tag == "rt-next" && c.Done && c.Err == nil {
				r.Check(c.Status == 200, "C02.effect-on-runtime-state", "%s: next was answered %d %s (a refused submission must not change the runtime's protocol state)", a.Who, c.Status, summarize(c.Body))
			}
		}
	}
	// no effect on what callers receive
	for i, inv := range w.Invokes {
		r.Check(inv.Call.Done && inv.Call.Err == nil, "C02.hang", "invocation %d: %s", inv.N, inv.Call)
		st, body := inv.Call.Status, inv.Call.Body
		r.Check(!bytes.Contains(body, []byte("BOGUS")) && !bytes.Contains(body, []byte("DUP-")), "C02.bogus-body-delivered", "invocation %d: caller received the body of a refused submission: %s", inv.N, summarize(body))
		switch modes[i] {
		case "ok":
			want := []byte(fmt.Sprintf("resp-%d:", inv.N) + string(inv.Payload))
			r.Check((st == 200 || strings.Contains(races[i], "error")) && (bytes.Equal(body, want) || strings.HasPrefix(races[i], "slow") && bytes.HasPrefix(body, want)), "C02.effect-on-caller", "invocation %d (ok): %d %s", inv.N, st, summarize(body))
		case "error":
			r.Check(bytes.Equal(body, []byte(fmt.Sprintf("ERR-%d", inv.N))), "C02.effect-on-caller", "invocation %d (error): %d %s", inv.N, st, summarize(body))
		case "stall":
			r.Check(st == 200 && bytes.Equal(body, timeoutBody), "C02.effect-on-caller", "invocation %d (stall): %d %s", inv.N, st, summarize(body))
		case "exit":
			eb, ok := ParseErr(body)
			if profile == "platform" && r.holdEverFired() {
				// the failure report was delayed: the caller gets it late, or the timeout outcome if it came too late
				r.Check(st >= 500 && ok && eb.ErrorType == "Runtime.ExitError" || st == 200 && bytes.Equal(body, timeoutBody), "C02.effect-on-caller", "invocation %d (exit, failure report delayed): %d %s", inv.N, st, summarize(body))
				r.NonTriv = true
				break
			}
			r.Check(st >= 500 && ok && eb.ErrorType == "Runtime.ExitError", "C02.effect-on-caller", "invocation %d (exit): %d %s", inv.N, st, summarize(body))
		case "zombie":
			// the runtime died while (or right after) submitting: either its response got through or the invocation failed
			zb := []byte(fmt.Sprintf("ZOMBIE-%d", inv.N))
			eb, ok := ParseErr(body)
			if zombieAlive {
				// the runtime stayed alive: its submission got through, or - only if its handler was in fact held
				// back - the invocation ran into its timeout first
				r.Check(bytes.Equal(body, zb) && (st == 200 || zombieErr) || r.holdEverFired() && st == 200 && bytes.Equal(body, timeoutBody), "C02.zombie-victim", "invocation %d (submission's handler delayed, runtime alive): %d %s", inv.N, st, summarize(body))
				r.NonTriv = r.NonTriv || r.holdEverFired()
				break
			}
			r.Check(st >= 500 && (bytes.Equal(body, zb) || ok && eb.ErrorType == "Runtime.ExitError") || st == 200 && bytes.Equal(body, zb), "C02.zombie-victim", "invocation %d (runtime died while submitting): %d %s", inv.N, st, summarize(body))
			r.NonTriv = r.NonTriv || r.holdEverFired()
		}
		if i > 0 {
			r.Check(!bytes.Contains(body, []byte("ZOMBIE")) || modes[i] == "zombie", "C02.zombie-body-delivered", "invocation %d: caller received the zombie submission of an earlier invocation: %s", inv.N, summarize(body))
		}
	}
	r.Check(len(w.Invokes) == nInv, "C02.hang", "%d of %d invocations made", len(w.Invokes), nInv)
}
