package simworld

import (
	"sync"
	"time"

	"go.amzn.com/lambda/interop"
)

// PlatEv is one platform lifecycle event emitted by the emulator.
type PlatEv struct {
	Kind string // InitStart InitRuntimeDone InitReport ExtensionInit InvokeStart InvokeRuntimeDone RestoreRuntimeDone ReportSpan ImageError ...
	Step int
	At   time.Duration

	Phase     string
	Status    string
	ErrorType string
	RequestID string
	InitType  string
	Ext       interop.ExtensionInitData
	Trace     string
}

// RecEvents is a recording interop.EventsAPI.
type RecEvents struct {
	r    *Run
	mu   sync.Mutex
	Evs  []PlatEv
	Fail bool // return errors from every Send*
}

func (e *RecEvents) add(ev PlatEv) error {
	e.mu.Lock()
	ev.Step = e.r.Step
	ev.At = e.r.Now()
	e.Evs = append(e.Evs, ev)
	fail := e.Fail
	e.mu.Unlock()
	if fail {
		return errSim
	}
	return nil
}

type simErr string

func (s simErr) Error() string { return string(s) }

const errSim = simErr("sim: events api failure")

// All returns a copy of the events recorded so far.
func (e *RecEvents) All() []PlatEv {
	e.mu.Lock()
	defer e.mu.Unlock()
	out := make([]PlatEv, len(e.Evs))
	copy(out, e.Evs)
	return out
}

func strp(p *string) string {
	if p == nil {
		return ""
	}
	return *p
}

func (e *RecEvents) SetCurrentRequestID(interop.RequestID) {}
func (e *RecEvents) SendInitStart(d interop.InitStartData) error {
	return e.add(PlatEv{Kind: "InitStart", Phase: string(d.Phase), InitType: string(d.InitializationType)})
}
func (e *RecEvents) SendInitRuntimeDone(d interop.InitRuntimeDoneData) error {
	return e.add(PlatEv{Kind: "InitRuntimeDone", Phase: string(d.Phase), Status: d.Status, ErrorType: strp(d.ErrorType), InitType: string(d.InitializationType)})
}
func (e *RecEvents) SendInitReport(d interop.InitReportData) error {
	return e.add(PlatEv{Kind: "InitReport", Phase: string(d.Phase), InitType: string(d.InitializationType)})
}
func (e *RecEvents) SendRestoreRuntimeDone(d interop.RestoreRuntimeDoneData) error {
	return e.add(PlatEv{Kind: "RestoreRuntimeDone", Status: d.Status, ErrorType: strp(d.ErrorType)})
}
func (e *RecEvents) SendInvokeStart(d interop.InvokeStartData) error {
	tr := ""
	if d.Tracing != nil {
		tr = d.Tracing.Value
	}
	return e.add(PlatEv{Kind: "InvokeStart", RequestID: d.RequestID, Trace: tr})
}
func (e *RecEvents) SendInvokeRuntimeDone(d interop.InvokeRuntimeDoneData) error {
	return e.add(PlatEv{Kind: "InvokeRuntimeDone", RequestID: string(d.RequestID), Status: d.Status, ErrorType: strp(d.ErrorType)})
}
func (e *RecEvents) SendExtensionInit(d interop.ExtensionInitData) error {
	return e.add(PlatEv{Kind: "ExtensionInit", Ext: d})
}
func (e *RecEvents) SendReportSpan(interop.Span) error   { return e.add(PlatEv{Kind: "ReportSpan"}) }
func (e *RecEvents) SendReport(interop.ReportData) error { return e.add(PlatEv{Kind: "Report"}) }
func (e *RecEvents) SendEnd(interop.EndData) error       { return e.add(PlatEv{Kind: "End"}) }
func (e *RecEvents) SendFault(interop.FaultData) error   { return e.add(PlatEv{Kind: "Fault"}) }
func (e *RecEvents) SendImageErrorLog(interop.ImageErrorLogData) {
	e.add(PlatEv{Kind: "ImageErrorLog"})
}
func (e *RecEvents) FetchTailLogs(string) (string, error) { return "", nil }
func (e *RecEvents) GetRuntimeDoneSpans(int64, *interop.InvokeResponseMetrics, int64, int64) []interop.Span {
	return []interop.Span{}
}
