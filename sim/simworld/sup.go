package simworld

import (
	"context"
	"fmt"
	"sort"
	"strings"
	"sync"
	"syscall"
	"time"

	supvmodel "go.amzn.com/lambda/supervisor/model"
	"go.amzn.com/verifsim/simsync"
)

// SupReq is one request the emulator made to the process supervisor.
type SupReq struct {
	Kind     string // exec | terminate | kill | kill-return
	Name     string
	Path     string
	Args     []string
	Cwd      string
	Env      map[string]string
	Err      string
	Step     int
	At       time.Duration
	Deadline time.Duration // kill: deadline relative to run start
	seq      int
}

func (q SupReq) String() string {
	switch q.Kind {
	case "exec":
		return fmt.Sprintf("exec %s path=%s err=%q", q.Name, q.Path, q.Err)
	default:
		return fmt.Sprintf("%s %s err=%q", q.Kind, q.Name, q.Err)
	}
}

// Proc is a virtual process known to the fake supervisor.
type Proc struct {
	Name     string
	Path     string
	Env      map[string]string
	Gen      int
	IsRT     bool
	ExtName  string
	Alive    bool
	TermReq  int // number of Terminate requests received
	KillReq  int
	TermStep int
	KillStep int
	TermAt   time.Duration
	KillAt   time.Duration
	ExecStep int
	ExecAt   time.Duration

	DeathStep int
	DeathAt   time.Duration
	EventSent bool
	EventStep int
	EventAt   time.Duration
	Exit      *int32
	Signo     *int32

	dead  chan struct{}
	conns []*Conn

	// actor state (harness side)
	A *Actor
}

// FakeSup implements supvmodel.ProcessSupervisor. It never reacts on its own:
// death of a process and delivery of its termination event are driver actions.
type FakeSup struct {
	r      *Run
	mu     sync.Mutex // real
	events chan supvmodel.Event
	Procs  map[string]*Proc
	Order  []*Proc
	Reqs   []SupReq
	// ExecFail maps a process-name prefix (e.g. "extension-foo-" or "runtime-") to the error to return.
	ExecFail map[string]error
	newReqs  int
}

func newFakeSup(r *Run) *FakeSup {
	return &FakeSup{r: r, events: make(chan supvmodel.Event), Procs: map[string]*Proc{}, ExecFail: map[string]error{}}
}

func genOf(name string) int {
	i := strings.LastIndex(name, "-")
	g := 0
	if i >= 0 {
		fmt.Sscanf(name[i+1:], "%d", &g)
	}
	return g
}

func (s *FakeSup) record(q SupReq) {
	q.Step = s.r.Step
	q.At = s.r.Now()
	q.seq = len(s.Reqs)
	s.Reqs = append(s.Reqs, q)
	s.newReqs++
}

func (s *FakeSup) Exec(ctx context.Context, req *supvmodel.ExecRequest) error {
	s.mu.Lock()
	defer s.mu.Unlock()
	defer simsync.Signal()
	q := SupReq{Kind: "exec", Name: req.Name, Path: req.Path, Args: req.Args}
	if req.Cwd != nil {
		q.Cwd = *req.Cwd
	}
	if req.Env != nil {
		q.Env = map[string]string{}
		for k, v := range *req.Env {
			q.Env[k] = v
		}
	}
	for prefix, err := range s.ExecFail {
		// a key ending in NUL is an exact process name, otherwise a prefix
		if strings.HasPrefix(req.Name+"\x00", prefix) {
			q.Err = err.Error()
			s.record(q)
			s.r.Fault("launch-failure")
			return err
		}
	}
	if _, dup := s.Procs[req.Name]; dup {
		q.Err = "duplicate name"
		s.record(q)
		return fmt.Errorf("fakesup: duplicate process name %s", req.Name)
	}
	p := &Proc{Name: req.Name, Path: req.Path, Env: q.Env, Gen: genOf(req.Name), Alive: true,
		dead: make(chan struct{}), ExecStep: s.r.Step, ExecAt: s.r.Now()}
	if strings.HasPrefix(req.Name, "runtime-") {
		p.IsRT = true
	} else if strings.HasPrefix(req.Name, "extension-") {
		n := strings.TrimPrefix(req.Name, "extension-")
		if i := strings.LastIndex(n, "-"); i >= 0 {
			n = n[:i]
		}
		p.ExtName = n
	}
	s.Procs[req.Name] = p
	s.Order = append(s.Order, p)
	s.record(q)
	return nil
}

func (s *FakeSup) Terminate(ctx context.Context, req *supvmodel.TerminateRequest) error {
	s.mu.Lock()
	defer s.mu.Unlock()
	defer simsync.Signal()
	q := SupReq{Kind: "terminate", Name: req.Name}
	p, ok := s.Procs[req.Name]
	if !ok {
		q.Err = "no_such_entity"
		s.record(q)
		msg := "Unknown process"
		return &supvmodel.SupervisorError{Kind: supvmodel.NoSuchEntity, Message: &msg}
	}
	p.TermReq++
	if p.TermReq == 1 {
		p.TermStep = s.r.Step
		p.TermAt = s.r.Now()
	}
	s.record(q)
	return nil
}

func (s *FakeSup) Kill(ctx context.Context, req *supvmodel.KillRequest) error {
	s.mu.Lock()
	q := SupReq{Kind: "kill", Name: req.Name, Deadline: req.Deadline.Sub(s.r.T0)}
	p, ok := s.Procs[req.Name]
	if !ok {
		q.Err = "no_such_entity"
		s.record(q)
		s.mu.Unlock()
		simsync.Signal()
		msg := "Unknown process"
		return &supvmodel.SupervisorError{Kind: supvmodel.NoSuchEntity, Message: &msg}
	}
	alive := p.Alive
	d := time.Until(req.Deadline)
	if alive && d <= 0 {
		// like the local supervisor: a request whose deadline has already passed is refused before any signal is sent
		q.Err = "invalid timeout"
		s.record(q)
		s.mu.Unlock()
		simsync.Signal()
		s.r.Probe("kill-refused-invalid-timeout")
		return fmt.Errorf("invalid timeout while killing %s", req.Name)
	}
	p.KillReq++
	if p.KillReq == 1 {
		p.KillStep = s.r.Step
		p.KillAt = s.r.Now()
	}
	s.record(q)
	s.mu.Unlock()
	simsync.Signal()
	if !alive {
		return nil
	}
	t := time.NewTimer(d)
	defer t.Stop()
	select {
	case <-p.dead:
		return nil
	case <-t.C:
		s.r.Probe("kill-hit-deadline")
		return fmt.Errorf("timed out while trying to SIGKILL %s", req.Name)
	}
}

func (s *FakeSup) Events(ctx context.Context, req *supvmodel.EventsRequest) (<-chan supvmodel.Event, error) {
	return s.events, nil
}

// ---- driver side ----

// TakeNew returns how many requests arrived since the last call.
func (s *FakeSup) TakeNew() int {
	s.mu.Lock()
	defer s.mu.Unlock()
	n := s.newReqs
	s.newReqs = 0
	return n
}

// Proc returns the process by supervisor name.
func (s *FakeSup) Proc(name string) *Proc {
	s.mu.Lock()
	defer s.mu.Unlock()
	return s.Procs[name]
}

// All returns all processes in Exec order.
func (s *FakeSup) All() []*Proc {
	s.mu.Lock()
	defer s.mu.Unlock()
	out := make([]*Proc, len(s.Order))
	copy(out, s.Order)
	return out
}

// AliveProcs returns the processes still alive, in Exec order.
func (s *FakeSup) AliveProcs() []*Proc {
	var out []*Proc
	for _, p := range s.All() {
		if p.Alive {
			out = append(out, p)
		}
	}
	return out
}

// Requests returns a copy of the request log.
func (s *FakeSup) Requests() []SupReq {
	s.mu.Lock()
	defer s.mu.Unlock()
	out := make([]SupReq, len(s.Reqs))
	copy(out, s.Reqs)
	return out
}

// Die makes the process die now: its connections close, a blocked Kill
// returns. exit<0 means killed by signal -exit. The termination event is NOT
// delivered; use Deliver.
func (s *FakeSup) Die(p *Proc, exit int) {
	s.mu.Lock()
	if !p.Alive {
		s.mu.Unlock()
		return
	}
	p.Alive = false
	p.DeathStep = s.r.Step
	p.DeathAt = s.r.Now()
	v := int32(exit)
	if exit >= 0 {
		p.Exit = &v
	} else {
		v = -v
		p.Signo = &v
	}
	conns := p.conns
	s.mu.Unlock()
	s.r.Logf("die   %s status=%d", p.Name, exit)
	for _, c := range conns {
		c.Close()
	}
	close(p.dead)
}

// Deliver sends the termination event of a dead process to the emulator.
func (s *FakeSup) Deliver(p *Proc) {
	s.mu.Lock()
	if p.Alive || p.EventSent {
		s.mu.Unlock()
		return
	}
	p.EventSent = true
	p.EventStep = s.r.Step
	p.EventAt = s.r.Now()
	s.mu.Unlock()
	s.r.Logf("event %s", p.Name)
	dom := "runtime"
	name := p.Name
	ev := supvmodel.Event{Time: uint64(time.Now().UnixMilli()), Event: supvmodel.EventData{Domain: &dom, Name: &name, Signo: p.Signo, ExitStatus: p.Exit}}
	s.r.Go(func() { s.events <- ev })
}

// DieAndDeliver is the common case: death immediately followed by its event.
func (s *FakeSup) DieAndDeliver(p *Proc, exit int) {
	s.Die(p, exit)
	s.Deliver(p)
}

// KillSignal is the exit value of a process killed by SIGKILL.
const KillSignal = -int(syscall.SIGKILL)

// TermSignal is the exit value of a process killed by SIGTERM.
const TermSignal = -int(syscall.SIGTERM)

// Attach registers a connection as belonging to the process (closed on death).
func (p *Proc) Attach(c *Conn) {
	p.conns = append(p.conns, c)
}

func sortedKeys(m map[string]string) []string {
	k := make([]string, 0, len(m))
	for x := range m {
		k = append(k, x)
	}
	sort.Strings(k)
	return k
}
