package simworld

import (
	"encoding/base64"
	"encoding/json"
	"fmt"
	"math/rand"
	"net/http"
	"os"
	"path/filepath"
	"sort"
	"strings"
	"sync"
	"time"

	"github.com/google/uuid"
	log "github.com/sirupsen/logrus"

	"go.amzn.com/lambda/core/statejson"
	"go.amzn.com/lambda/fatalerror"
	"go.amzn.com/lambda/interop"
	"go.amzn.com/lambda/rapidcore"
	"go.amzn.com/lambda/rapidcore/env"
	"go.amzn.com/verifsim/simnet"
	"go.amzn.com/verifsim/simsync"
)

// Hooks filled in by the entry test file of package main (cmd/aws-lambda-rie).
var (
	// FrontDoorHandler wraps the real InvokeHandler.
	FrontDoorHandler func(sandbox rapidcore.LambdaInvokeAPI, bs interop.Bootstrap) http.HandlerFunc
	// NewBootstrap wraps the real NewSimpleBootstrap.
	NewBootstrap func(cmd []string, cwd string) interop.Bootstrap
	// ResetFrontEnd resets package-level state of the front end.
	ResetFrontEnd func()
	// EagerInit runs the real InitHandler without an invocation and marks the front end initialised.
	EagerInit func(sandbox rapidcore.LambdaInvokeAPI, timeoutSec int64, bs interop.Bootstrap)
)

const (
	FrontAddr  = "127.0.0.1:8080"
	RapiAddr   = "127.0.0.1:9001"
	InvokePath = "/2015-03-31/functions/function/invocations"
)

// WorldCfg is the per-run configuration of the emulator instance.
type WorldCfg struct {
	TimeoutSec   int
	InitCaching  bool
	ExtFiles     []string          // regular files under /opt/extensions (launched as external extensions)
	ExtDirs      []string          // directories under /opt/extensions (must be ignored)
	FunctionName string            // AWS_LAMBDA_FUNCTION_NAME ("" = default test_function)
	Handler      string            // handler override given on the command line (SandboxBuilder.SetHandler)
	HandlerEnv   string            // AWS_LAMBDA_FUNCTION_HANDLER of the emulator's environment
	BootFault    string            // "", "cmd", "cwd"
	Env          map[string]string // extra variables of the emulator\'s own environment
	AccountID    string
}

// World is the simulated environment around one emulator instance.
type World struct {
	r       *Run
	Cfg     WorldCfg
	Sup     *FakeSup
	Ev      *RecEvents
	Builder *rapidcore.SandboxBuilder
	Server  *rapidcore.Server
	stateFn func() statejson.InternalStateDescription
	front   *http.Server

	Invokes []*Invocation
	actors  []*Actor

	slowAfter int
	slowPause time.Duration
	Eng       *Engine // the engine driving this world (last created)
	BS        interop.Bootstrap
}

var fixtureBase string
var fixtureMu sync.Mutex
var fixtures = map[string]string{}

// fixtureRoot returns a real directory tree <root>/opt/extensions/... for the configuration.
func fixtureRoot(files, dirs []string) string {
	fixtureMu.Lock()
	defer fixtureMu.Unlock()
	key := strings.Join(files, ",") + "|" + strings.Join(dirs, ",")
	if p, ok := fixtures[key]; ok {
		return p
	}
	if fixtureBase == "" {
		d, err := os.MkdirTemp("", "verifsim-fx-")
		if err != nil {
			panic(err)
		}
		fixtureBase = d
	}
	root := filepath.Join(fixtureBase, fmt.Sprintf("fx%d", len(fixtures)))
	ext := filepath.Join(root, "opt", "extensions")
	if len(files)+len(dirs) > 0 {
		if err := os.MkdirAll(ext, 0o755); err != nil {
			panic(err)
		}
	} else {
		os.MkdirAll(root, 0o755)
	}
	for _, f := range files {
		if err := os.WriteFile(filepath.Join(ext, f), []byte("#!/bin/true\n"), 0o755); err != nil {
			panic(err)
		}
	}
	for _, d := range dirs {
		os.MkdirAll(filepath.Join(ext, d), 0o755)
		os.WriteFile(filepath.Join(ext, d, "nested"), []byte("x"), 0o755)
	}
	fixtures[key] = root
	return root
}

// FixtureBase is the directory to remove when the worker exits.
func FixtureBase() string { return fixtureBase }

type detReader struct {
	mu  sync.Mutex
	rng *rand.Rand
}

func (d *detReader) Read(p []byte) (int, error) {
	d.mu.Lock()
	defer d.mu.Unlock()
	for i := range p {
		p[i] = byte(d.rng.Intn(256))
	}
	return len(p), nil
}

type faultyBootstrap struct {
	interop.Bootstrap
	fault string
}

func (b *faultyBootstrap) Cmd() ([]string, error) {
	if b.fault == "cmd" {
		return nil, fmt.Errorf("sim: entrypoint not found")
	}
	return b.Bootstrap.Cmd()
}
func (b *faultyBootstrap) Cwd() (string, error) {
	if b.fault == "cwd" {
		return "", fmt.Errorf("sim: working dir invalid")
	}
	return b.Bootstrap.Cwd()
}
func (b *faultyBootstrap) Env(e *env.Environment) map[string]string { return b.Bootstrap.Env(e) }
func (b *faultyBootstrap) ExtraFiles() []*os.File                   { return b.Bootstrap.ExtraFiles() }
func (b *faultyBootstrap) CachedFatalError(err error) (fatalerror.ErrorType, string, bool) {
	return b.Bootstrap.CachedFatalError(err)
}

// NewWorld builds one emulator instance wired as main() does, on in-memory listeners.
func (r *Run) NewWorld(cfg WorldCfg, uuidSeed int64) *World {
	if cfg.TimeoutSec <= 0 {
		cfg.TimeoutSec = 3
	}
	w := &World{r: r, Cfg: cfg}
	r.W = w
	r.afterSettle = w.absorb
	w.Sup = newFakeSup(r)
	w.Ev = &RecEvents{r: r}
	simnet.Reset()
	simnet.OnActivity = simsync.Signal
	uuid.SetRand(&detReader{rng: rand.New(rand.NewSource(uuidSeed))})
	if ResetFrontEnd != nil {
		ResetFrontEnd()
	}
	os.Setenv("AWS_LAMBDA_FUNCTION_TIMEOUT", fmt.Sprintf("%d", cfg.TimeoutSec))
	for k, v := range cfg.Env {
		os.Setenv(k, v)
	}
	for _, k := range []string{"AWS_ACCESS_KEY_ID", "AWS_SECRET_ACCESS_KEY", "AWS_SESSION_TOKEN"} {
		if _, ok := cfg.Env[k]; !ok {
			os.Unsetenv(k)
		}
	}
	if cfg.HandlerEnv != "" {
		os.Setenv("AWS_LAMBDA_FUNCTION_HANDLER", cfg.HandlerEnv)
	} else {
		os.Unsetenv("AWS_LAMBDA_FUNCTION_HANDLER")
	}
	if cfg.FunctionName != "" {
		os.Setenv("AWS_LAMBDA_FUNCTION_NAME", cfg.FunctionName)
	} else {
		os.Unsetenv("AWS_LAMBDA_FUNCTION_NAME")
	}
	root := fixtureRoot(cfg.ExtFiles, cfg.ExtDirs)
	done := false
	r.Go(func() {
		b := rapidcore.NewSandboxBuilder().
			SetExtensionsFlag(true).
			SetInitCachingFlag(cfg.InitCaching).
			SetSupervisor(w.Sup).
			SetRuntimeFsRootPath(root).
			SetEventsAPI(w.Ev).
			SetRuntimeAPIAddress(RapiAddr)
		if cfg.Handler != "" {
			b.SetHandler(cfg.Handler)
		}
		sbCtx, stateFn := b.Create()
		b.DefaultInteropServer().SetSandboxContext(sbCtx)
		b.DefaultInteropServer().SetInternalStateGetter(stateFn)
		w.Builder = b
		w.Server = b.DefaultInteropServer()
		w.stateFn = stateFn
		var bs interop.Bootstrap = NewBootstrap([]string{"/var/runtime/bootstrap"}, "/")
		if cfg.BootFault != "" {
			bs = &faultyBootstrap{Bootstrap: bs, fault: cfg.BootFault}
		}
		w.BS = bs
		mux := http.NewServeMux()
		mux.HandleFunc(InvokePath, FrontDoorHandler(b.LambdaInvokeAPI(), bs))
		ln, err := simnet.Listen("tcp", FrontAddr)
		if err != nil {
			panic(err)
		}
		w.front = &http.Server{Handler: mux, ErrorLog: nil}
		go w.front.Serve(ln)
		done = true
	})
	r.Settle()
	for i := 0; i < 8 && !done && r.HeldNow(); i++ {
		r.ReleaseHolds() // a hold that fired during construction
		r.Settle()
	}
	if !done {
		r.Troublef("world construction did not finish")
	}
	// wait for the Runtime API listener
	for i := 0; i < 50 && !simnet.Listening(RapiAddr); i++ {
		r.Settle()
	}
	if !simnet.Listening(RapiAddr) {
		r.Troublef("runtime API server is not listening")
	}
	return w
}

func init() {
	// only panic-level messages are enabled; they go to stderr so that the reason of an emulator crash is recorded
	log.SetOutput(os.Stderr)
	log.SetLevel(log.PanicLevel)
	if os.Getenv("VERIF_DEBUG") == "2" {
		// debugging aid for `verif job`: the emulator's own log, on stderr
		log.SetLevel(log.DebugLevel)
		if f, err := os.Create("/tmp/verif-sutlog.txt"); err == nil {
			log.SetOutput(f)
		}
	}
}

// AbstractState is a coarse description of the run's state as the harness sees it.
func (w *World) AbstractState() string {
	var parts []string
	for _, p := range w.Sup.All() {
		if p.A == nil {
			continue
		}
		st := p.A.State()
		if !p.Alive {
			st = "dead"
		}
		kind := "ext"
		if p.IsRT {
			kind = "rt"
		}
		parts = append(parts, kind+":"+st)
	}
	if len(parts) > 6 {
		parts = parts[len(parts)-6:]
	}
	sort.Strings(parts)
	inflight := 0
	for _, inv := range w.Invokes {
		if inv.Call.Pending() {
			inflight++
		}
	}
	return fmt.Sprintf("inflight=%d %s", inflight, strings.Join(parts, ","))
}

// ---- callers ----

// Invocation is one call of the invoke endpoint by a simulated client.
type Invocation struct {
	N       int
	Payload []byte
	CliCtx  string // raw client context (sent base64-encoded)
	TraceID string
	Call    *Call
	Conn    *Conn

	// filled by the runtime actor when the event is delivered
	ReqID       string
	Dispatched  bool
	DispStep    int
	DispAt      time.Duration
	Answered    []byte // body accepted by the emulator for this invocation (response or error)
	AnswerKind  string // response | error
	AnswerStep  int
	ArrivalAt   time.Duration
	ArrivalStep int
	Extra       bool // a concurrent caller outside the plan
}

// Invoke posts an event to the front door (new connection, like curl).
// InvokeSlow is Invoke by a caller that reads its answer slowly: a receive buffer of 64 KiB, a pause after the
// first after bytes of the body.
func (w *World) InvokeSlow(payload []byte, clientCtx, traceID string, after int, pause time.Duration) *Invocation {
	w.slowAfter, w.slowPause = after, pause
	defer func() { w.slowPause = 0 }()
	return w.Invoke(payload, clientCtx, traceID)
}

func (w *World) Invoke(payload []byte, clientCtx, traceID string) *Invocation {
	r := w.r
	r.NextStep()
	inv := &Invocation{N: len(w.Invokes) + 1, Payload: payload, CliCtx: clientCtx, TraceID: traceID,
		ArrivalAt: r.Now(), ArrivalStep: r.Step}
	hdr := map[string]string{}
	if clientCtx != "" {
		hdr["X-Amz-Client-Context"] = base64.StdEncoding.EncodeToString([]byte(clientCtx))
	}
	if traceID != "" {
		hdr["X-Amzn-Trace-Id"] = traceID
	}
	if w.slowPause > 0 {
		inv.Conn = r.DialCap(FrontAddr, 64<<10)
	} else {
		inv.Conn = r.Dial(FrontAddr)
	}
	body := payload
	if body == nil {
		body = []byte{}
	}
	inv.Call = inv.Conn.StartSlow(fmt.Sprintf("caller%d", inv.N), "POST", InvokePath, hdr, body, w.slowAfter, w.slowPause)
	w.Invokes = append(w.Invokes, inv)
	r.Settle()
	return inv
}

// ---- helpers on JSON error bodies ----

type errBody struct {
	ErrorType    string `json:"errorType"`
	ErrorMessage string `json:"errorMessage"`
}

// ParseErr decodes a platform JSON error body.
func ParseErr(b []byte) (errBody, bool) {
	var e errBody
	if err := json.Unmarshal(b, &e); err != nil {
		return e, false
	}
	return e, e.ErrorType != ""
}
