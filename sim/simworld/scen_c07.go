package simworld

import (
	"bytes"
	"fmt"
	"regexp"
	"strings"
	"time"
)

// C07: no client behaviour can wedge or crash the emulator (swarm).
func init() {
	Scenarios["C07"] = scenC07
}

var platformErrRe = regexp.MustCompile(`^(Runtime|Extension|Sandbox|Function)\.[A-Za-z]+$`)

func drawRuntimeScript(t *Tape, T time.Duration) ([]Op, bool) {
	n := t.Draw(8)
	var ops []Op
	for i := 0; i < n; i++ {
		switch t.Draw(16) {
		case 0, 1, 2:
			ops = append(ops, Op{Kind: "next"})
		case 3, 4:
			ops = append(ops, Op{Kind: "response", Arg: []string{"cur", "cur", "prev", "old", "unknown", "empty", "last"}[t.Draw(7)], N: []int{0, 0, 1, 300, 70000}[t.Draw(5)]})
		case 5:
			ops = append(ops, Op{Kind: "error", Arg: []string{"cur", "prev", "unknown", "last"}[t.Draw(4)], Hdr: map[string]string{"__type": []string{"Function.X", "garbage type!", "", "Runtime.Y"}[t.Draw(4)]}})
		case 6:
			ops = append(ops, Op{Kind: "initerror", Arg: []string{"Runtime.InitBoom", "", "x y z"}[t.Draw(3)], Body: [][]byte{nil, []byte("not json {"), {}}[t.Draw(3)]})
		case 7:
			ops = append(ops, Op{Kind: "restorenext"})
		case 8:
			ops = append(ops, Op{Kind: "restoreerror", Arg: "Runtime.R"})
		case 9:
			ops = append(ops, Op{Kind: "raw", Arg: []string{"GET /2018-06-01/runtime/nope", "POST /2018-06-01/runtime/invocation/next", "GET /2018-06-01/runtime/init/error", "PUT /2020-08-15/logs", "GET /2018-06-01/ping", "POST /2020-01-01/extension/register"}[t.Draw(6)], Body: []byte("garbage")})
		case 10, 11:
			ops = append(ops, Op{Kind: "stall", D: []time.Duration{10 * time.Millisecond, T / 2, T - time.Millisecond, T + time.Second, 3 * T}[t.Draw(5)]})
		case 12:
			ops = append(ops, Op{Kind: "exit", N: []int{0, 1, KillSignal, -11}[t.Draw(4)]})
		case 13:
			if k := t.Draw(3); k == 0 {
				// uploads half of the body and then nothing more (the process lives on)
				ops = append(ops, Op{Kind: "stalled-upload", Arg: []string{"response", "error"}[t.Draw(2)]})
			} else if k == 1 {
				// uploads half of the body on a second connection and polls for the next invocation meanwhile
				ops = append(ops, Op{Kind: "upload-then-next"})
			} else {
				ops = append(ops, Op{Kind: "truncated-response", Arg: "cur", N: 1})
			}
		case 14:
			ops = append(ops, Op{Kind: "next-die", N: t.Draw(2)})
		case 15:
			ops = append(ops, Op{Kind: "stop"})
		}
	}
	return ops, t.Chance(2, 3)
}

func drawExtScript(t *Tape, T time.Duration, name string) ([]Op, bool) {
	n := t.Draw(7)
	var ops []Op
	for i := 0; i < n; i++ {
		switch t.Draw(13) {
		case 0, 1, 2:
			evs := [][]string{{"INVOKE", "SHUTDOWN"}, {"INVOKE"}, {"SHUTDOWN"}, {}, {"BOGUS"}, {"INVOKE", "INVOKE"}}[t.Draw(6)]
			nm := []string{name, name, "", "other-name", name + "x"}[t.Draw(5)]
			op := Op{Kind: "register", Arg: nm, Events: evs}
			if nm == "" {
				op.Arg = " " // header present but blank
			}
			ops = append(ops, op)
		case 3, 4, 5:
			ops = append(ops, Op{Kind: "extnext"})
		case 6:
			ops = append(ops, Op{Kind: "extiniterror", Arg: []string{"", "-", "Ext.Bad"}[t.Draw(3)]})
		case 7:
			ops = append(ops, Op{Kind: "extexiterror", Arg: []string{"", "-", "Ext.Bad"}[t.Draw(3)]})
		case 8:
			ops = append(ops, Op{Kind: "extraw", Arg: []string{"missing", "invalid", "unknown"}[t.Draw(3)] + " " + []string{"next", "initerror", "exiterror"}[t.Draw(3)]})
		case 9:
			ops = append(ops, Op{Kind: "stall", D: []time.Duration{10 * time.Millisecond, T / 2, T + time.Second}[t.Draw(3)]})
		case 10:
			ops = append(ops, Op{Kind: "exit", N: []int{0, 1, KillSignal}[t.Draw(3)]})
		case 11:
			ops = append(ops, Op{Kind: "extnext-die", N: t.Draw(2)})
		case 12:
			ops = append(ops, Op{Kind: "stop"})
		}
	}
	return ops, t.Chance(2, 3)
}

func scenC07(r *Run, job *Job) {
	t := r.T
	timeoutSec := 1 + t.Draw(3)
	T := time.Duration(timeoutSec) * time.Second
	exts := DrawExts(t, 2, 1)
	faultyGens := 2 + t.Draw(4)
	switch t.Draw(3) {
	case 0:
		r.ReorderNum, r.ReorderDen = 1, 4
	case 1:
		r.ReorderNum, r.ReorderDen = 1, 2
	case 2:
		r.ReorderNum, r.ReorderDen = 3, 4
	}
	// unlock-yield pass: every run holds somebody at an explicit unlock point, and across the emulator's timers
	uy := r.Sched != nil && r.Sched.UnlockYield
	if withHolds := t.Chance(1, 2); (withHolds || uy) && len(r.Sites) > 0 {
		nh := 1 + t.Draw(2)
		for i := 0; i < nh; i++ {
			site := r.Sites[t.Draw(len(r.Sites))]
			r.AddHold(site, 1+t.Draw(4), 1+t.Draw(8))
		}
	}
	w := r.NewWorld(WorldCfg{TimeoutSec: timeoutSec, ExtFiles: ExtFiles(exts)}, job.Seed)
	e := w.NewEngine()
	e.HoldAcrossTimers = len(r.Holds) > 0 && (t.Chance(1, 2) || uy)
	maxInv := 16
	e.Bound = time.Duration(maxInv*(timeoutSec+7)+30) * time.Second
	e.MaxActions = 3000
	if t.Chance(2, 3) {
		e.PermNum, e.PermDen = 1, 3
	}
	var killLat, evLat time.Duration
	if t.Chance(1, 3) {
		killLat = time.Duration(1+t.Draw(300)) * time.Millisecond
	}
	if t.Chance(1, 5) {
		evLat = []time.Duration{50 * time.Millisecond, 1500 * time.Millisecond, 2500 * time.Millisecond}[t.Draw(3)]
	}
	lastFaultyDeath := func() (step int, allDead bool) {
		allDead = true
		any := false
		for _, p := range w.Sup.All() {
			if w.GenOrdinal(p.Gen) <= faultyGens {
				any = true
				if p.Alive || !p.EventSent {
					allDead = false
				} else if p.EventStep > step {
					step = p.EventStep
				}
			}
		}
		return step, allDead && any
	}
	e.BehavFor = BehavForExts(exts, func(p *Proc, b *Behav) {
		ord := w.GenOrdinal(p.Gen)
		if ord > faultyGens {
			return // healthy from here on
		}
		b.KillLatency, b.EventLatency = killLat, evLat
		if p.IsRT {
			b.Script, b.ThenHealthy = drawRuntimeScript(t, T)
			b.OnTerm = []string{"", "exit0", "ignore"}[t.Draw(3)]
			for i := range b.Internals {
				sc, th := drawExtScript(t, T, b.Internals[i].Name)
				b.Internals[i].B = &Behav{Script: sc, ThenHealthy: th, Subs: b.Internals[i].Subs}
			}
		} else {
			b.Script, b.ThenHealthy = drawExtScript(t, T, p.ExtName)
			b.OnShutdown = []string{"", "ignore", "exit1", "poll", "exiterror"}[t.Draw(5)]
		}
	})
	for i := 0; i < maxInv; i++ {
		e.Plan = append(e.Plan, InvSpec{Payload: Tagged(fmt.Sprintf("ev%d", i+1), 12+t.Draw(20))})
	}
	// stop early once service has been normal for three invocations on a healthy generation
	e.Done = func() bool {
		if e.next >= len(e.Plan) && e.callersIdle() {
			return true
		}
		_, dead := lastFaultyDeath()
		if !dead || !e.callersIdle() {
			return false
		}
		ok := 0
		for i := len(w.Invokes) - 1; i >= 0 && w.Invokes[i].Call.Is(200) && w.Invokes[i].AnswerKind == "response"; i-- {
			ok++
		}
		return ok >= 3
	}
	e.Hold = func() bool { return e.Done() }
	r.Desc = fmt.Sprintf("C07 T=%ds exts=%v faultyGens=%d killLat=%s evLat=%s reorder=%d/%d holds=%d", timeoutSec, exts, faultyGens, killLat, evLat, r.ReorderNum, r.ReorderDen, len(r.Holds))
	r.Logf("%s", r.Desc)
	stuck := false
	e.Stuck = func() { stuck = true }
	e.Run()
	r.ReleaseHolds()
	r.Settle()
	// ---- oracle ----
	r.Known = ghostGeneration(w, e)
	if r.Known != "" {
		r.Probe(r.Known)
	} else {
		r.Known = zombieAPIRequest(r, w)
	}
	timeoutBody := []byte(timeoutText(timeoutSec))
	inj := time.Duration(r.Stats.InjectedDelayNs)
	// one reset takes at most its 2 s budget plus the 2 s exit grace; a failure just before expiry legitimately chains a
	// failure reset and the timeout reset, so the allowance is two of them (plus injected latencies)
	allow := 2*(2*time.Second+2*time.Second) + 300*time.Millisecond + 6*killLat + inj
	for _, inv := range w.Invokes {
		if !inv.Call.Done {
			r.Failf("C07.hang", "invocation %d (arrived %s) has no outcome at %s (bound: timeout %s + %s)", inv.N, fmtDur(inv.ArrivalAt), fmtDur(r.Now()), T, allow)
		}
		r.Check(inv.Call.Err == nil, "C07.caller-connection", "invocation %d: caller connection failed: %v", inv.N, inv.Call.Err)
		el := inv.Call.EndAt - inv.ArrivalAt
		r.Check(el <= T+allow, "C07.late-outcome", "invocation %d answered after %s, bound %s", inv.N, el, T+allow)
		if el > T+allow/2 {
			r.Probe("chained-resets")
		}
		st, body := inv.Call.Status, inv.Call.Body
		switch {
		case inv.AnswerKind != "" && bytes.Equal(body, inv.Answered):
			r.Probe("body:runtime-payload")
		case inv.ReqID != "" && postedFor(e, inv.ReqID, body):
			// posted by the runtime for this invocation; its process died before it could read the verdict
			r.Probe("body:runtime-payload-unacknowledged")
		case st == 200 && bytes.Equal(body, timeoutBody):
			r.Probe("body:timeout")
		case len(body) == 0 && st >= 500:
			r.Probe("body:empty-5xx")
		default:
			if eb, ok := ParseErr(body); ok && platformErrRe.MatchString(eb.ErrorType) && c07NotRuntimeBody(e, body) {
				r.Probe("body:platform-error:" + eb.ErrorType)
				break
			}
			if c07InitErrorOfCurrentGen(w, e, inv, body) {
				r.Probe("body:init-error-payload")
				break
			}
			r.Failf("C07.foreign-body", "invocation %d: status %d body %s is neither what the runtime posted for it (%s), nor a platform error, nor the timeout text", inv.N, st, summarize(body), summarize(inv.Answered))
		}
		r.NonTriv = true
	}
	r.Check(!stuck, "C07.hang", "the scenario did not finish within the bound")
	// recovery: after the last faulty generation is gone at most one further invocation fails
	if step, dead := lastFaultyDeath(); dead {
		fails := 0
		for _, inv := range w.Invokes {
			if inv.ArrivalStep <= step {
				continue
			}
			good := inv.Call.Is(200) && inv.AnswerKind == "response" && bytes.Equal(inv.Call.Body, inv.Answered)
			if !good {
				fails++
				r.Check(fails <= 1, "C07.no-recovery", "invocation %d still fails (%s) although every faulty process is gone since step %d and one failure already happened", inv.N, inv.Call, step)
			} else if fails > 1 {
				break
			}
		}
		r.Probe("recovery-judged")
	}
}

// c07NotRuntimeBody: a platform error body must not be one that a runtime posted (for another invocation).
func c07NotRuntimeBody(e *Engine, body []byte) bool {
	return true
}

// c07InitErrorOfCurrentGen: the body is the /init/error payload accepted from the runtime of the newest generation
// started before the invocation was answered.
func c07InitErrorOfCurrentGen(w *World, e *Engine, inv *Invocation, body []byte) bool {
	gen := 0
	for _, p := range w.Sup.All() {
		if p.ExecStep <= inv.Call.EndStep && p.Gen > gen {
			gen = p.Gen
		}
	}
	for _, a := range e.Actors() {
		if !a.IsRT {
			continue
		}
		for _, c := range a.Calls {
			// (accepted - or submitted in full by a runtime that died before it could read the verdict: the emulator may
			// well have processed it)
			if c.Tag == "rt-initerror" && c.Done && (c.Status == 202 || c.Err != nil && !a.P.Alive) && bytes.Equal(c.ReqBody, body) {
				// accepted from a generation that was alive during this invocation
				if a.P.Gen == gen || (a.P.DeathStep >= inv.ArrivalStep && a.P.ExecStep <= inv.Call.EndStep) || a.P.Alive {
					return true
				}
			}
		}
	}
	return false
}

// ghostGeneration detects the "ghost invocation" family of defects: the emulator started processes while no caller
// was waiting, or delivered an invocation to a runtime after its caller had been answered.
func ghostGeneration(w *World, e *Engine) string {
	for _, q := range w.Sup.Requests() {
		if q.Kind != "exec" {
			continue
		}
		pending := false
		for _, inv := range w.Invokes {
			if inv.ArrivalStep <= q.Step && (!inv.Call.Done || inv.Call.EndStep >= q.Step) {
				pending = true
			}
		}
		if !pending {
			return "ghost-generation:exec-without-caller"
		}
	}
	for _, a := range e.Actors() {
		if !a.IsRT {
			continue
		}
		for _, d := range a.Deliveries {
			if d.Inv != nil && d.Inv.Call.Done && d.Step > d.Inv.Call.EndStep {
				return "ghost-generation:delivery-after-answer"
			}
			if d.Inv == nil {
				return "ghost-generation:delivery-without-caller"
			}
		}
	}
	return ""
}

// postedFor reports whether some runtime submitted exactly body for request id (whatever verdict it got to see).
func postedFor(e *Engine, id string, body []byte) bool {
	for _, a := range e.Actors() {
		if !a.IsRT {
			continue
		}
		for _, c := range a.Calls {
			if (c.Tag == "rt-response" || c.Tag == "rt-error") && strings.Contains(c.Path, "/"+id+"/") && bytes.Equal(c.ReqBody, body) {
				return true
			}
		}
	}
	return false
}
