package simworld

import (
	"fmt"
	"time"
)

// ExtCfg describes one extension of a generated configuration.
type ExtCfg struct {
	Name     string
	Internal bool
	Subs     []string
}

func (c ExtCfg) Has(ev string) bool {
	for _, s := range c.Subs {
		if s == ev {
			return true
		}
	}
	return false
}

var extSubSets = [][]string{{"INVOKE", "SHUTDOWN"}, {"INVOKE"}, {"SHUTDOWN"}, {}}
var intSubSets = [][]string{{"INVOKE"}, {}}

// DrawExts draws 0..maxExt external and 0..maxInt internal extensions with subscription sets.
func DrawExts(t *Tape, maxExt, maxInt int) []ExtCfg {
	var out []ExtCfg
	ne := t.Weighted(weightsUpTo(maxExt)...)
	for i := 0; i < ne; i++ {
		out = append(out, ExtCfg{Name: fmt.Sprintf("e%d", i+1), Subs: extSubSets[t.Draw(len(extSubSets))]})
	}
	ni := t.Weighted(weightsUpTo(maxInt)...)
	for i := 0; i < ni; i++ {
		out = append(out, ExtCfg{Name: fmt.Sprintf("i%d", i+1), Internal: true, Subs: intSubSets[t.Draw(len(intSubSets))]})
	}
	return out
}

// weightsUpTo gives weights for 0..n with the default (index 0) = 1 extension when possible.
func weightsUpTo(n int) []int {
	// index i means "i" items; we want variety, so uniform
	w := make([]int, n+1)
	for i := range w {
		w[i] = 1
	}
	return w
}

// ExtFiles lists the external extension file names of a configuration.
func ExtFiles(exts []ExtCfg) []string {
	var f []string
	for _, e := range exts {
		if !e.Internal {
			f = append(f, e.Name)
		}
	}
	return f
}

// BehavForExts builds the default healthy BehavFor for a configuration.
func BehavForExts(exts []ExtCfg, tweak func(p *Proc, b *Behav)) func(p *Proc) *Behav {
	return func(p *Proc) *Behav {
		b := &Behav{ThenHealthy: true}
		if p.IsRT {
			for _, e := range exts {
				if e.Internal {
					b.Internals = append(b.Internals, InternalSpec{Name: e.Name, Subs: e.Subs})
				}
			}
		} else {
			for _, e := range exts {
				if !e.Internal && e.Name == p.ExtName {
					b.Subs = e.Subs
				}
			}
		}
		if tweak != nil {
			tweak(p, b)
		}
		return b
	}
}

// DrawStall draws a stall duration class relative to the function timeout.
func DrawStall(t *Tape, timeout time.Duration) time.Duration {
	switch t.Draw(4) {
	case 0:
		return time.Duration(1+t.Draw(50)) * time.Millisecond
	case 1:
		return time.Duration(1+t.Draw(20)) * time.Second / 10
	case 2:
		return timeout / 2
	default:
		return timeout - time.Duration(1+t.Draw(500))*time.Millisecond
	}
}

// Tagged returns a payload of about n bytes carrying a unique tag.
func Tagged(tag string, n int) []byte {
	b := []byte("<" + tag + ">")
	for len(b) < n {
		b = append(b, byte('a'+len(b)%26))
	}
	return b
}

// DrawTrace returns an X-Amzn-Trace-Id header value in one of the shapes callers really send: canonical, without
// Sampled, with Lineage / Self fields, in another field order, root only, or not an X-Ray header at all.
func DrawTrace(t *Tape, n int) string {
	root := fmt.Sprintf("1-5b3cc918-%024d", n)
	switch t.Weighted(4, 1, 1, 1, 1, 1, 1) {
	case 1:
		return "Root=" + root + ";Parent=c88d77b0aef840e9"
	case 2:
		return "Root=" + root + ";Parent=c88d77b0aef840e9;Sampled=1;Lineage=a87bd80c:1|68fd508a:5"
	case 3:
		return "Sampled=0;Parent=c88d77b0aef840e9;Root=" + root
	case 4:
		return "Self=1-67891234-12456789abcdef012345678;Root=" + root + ";Sampled=1"
	case 5:
		return "Root=" + root
	case 6:
		return fmt.Sprintf("trace-%d-not-xray", n)
	}
	return fmt.Sprintf("Root=%s;Parent=c88d77b0aef840e9;Sampled=%d", root, t.Draw(2))
}
