package simworld

import (
	"fmt"
	"strings"
	"time"
)

// C03: init barrier.
func init() {
	Scenarios["C03"] = scenC03
}

func scenC03(r *Run, job *Job) {
	t := r.T
	exts := DrawExts(t, 3, 2)
	var dirs []string
	if t.Chance(1, 2) {
		dirs = append(dirs, "adir")
		if t.Chance(1, 2) {
			dirs = append(dirs, "zdir.d")
		}
	}
	timeout := 300
	cfg := WorldCfg{TimeoutSec: timeout, ExtFiles: ExtFiles(exts), ExtDirs: dirs}
	switch t.Draw(3) {
	case 1:
		r.ReorderNum, r.ReorderDen = 1, 4
	case 2:
		r.ReorderNum, r.ReorderDen = 1, 2
	}
	nExternal := 0
	for _, x := range exts {
		if !x.Internal {
			nExternal++
		}
	}
	if nExternal >= 2 && t.Chance(1, 3) {
		// the launch loop is descheduled between two launches: an extension launched earlier registers meanwhile
		site := []string{"createExitedChannel<lambda/rapid.doInitExtensions", "CreateExternalAgent<lambda/rapid.doInitExtensions"}[t.Draw(2)]
		r.AddHold(site, 2+t.Draw(nExternal-1), 1+t.Draw(4))
	}
	// the end of the registration phase: the init goroutine is descheduled around "count the agents / close the
	// registration" (or a registration inside the registration service) while a late internal extension registers
	closeRace := t.Chance(1, 4)
	if closeRace {
		site := []string{"GetRegisteredAgentsSize<lambda/rapid.doRuntimeDomainInit", "TurnOff<lambda/rapid.doRuntimeDomainInit", "registrationServiceImpl).CreateInternalAgent<", "SetAgentsReadyCount<lambda/rapid.doRuntimeDomainInit"}[t.Draw(4)]
		r.AddHold(site, 1, 1+t.Draw(3))
	}
	w := r.NewWorld(cfg, job.Seed)
	e := w.NewEngine()
	e.Bound = 700 * time.Second
	switch t.Draw(3) {
	case 0:
		e.PermNum, e.PermDen = 1, 2
	case 1:
		e.PermNum, e.PermDen = 9, 10
	}
	nParties := 1 + len(exts)
	stallParty, stallAt := -1, 0
	var stallDur time.Duration
	if t.Chance(2, 3) {
		stallParty = t.Draw(nParties)
		stallAt = t.Draw(2) // before register / before first poll (runtime: before first poll only)
		stallDur = DrawStall(t, 280*time.Second)
	}
	// a late-coming internal extension
	late := t.Chance(1, 2)
	var lateDelay time.Duration
	if late {
		lateDelay = DrawStall(t, 290*time.Second)
	}
	if closeRace {
		late, lateDelay = true, 0
	}
	nInv := 1 + t.Draw(2)
	for i := 0; i < nInv; i++ {
		e.Plan = append(e.Plan, InvSpec{Payload: Tagged(fmt.Sprintf("ev%d", i+1), 16)})
	}
	e.BehavFor = BehavForExts(exts, func(p *Proc, b *Behav) {
		idx := func(name string) int {
			for i, x := range exts {
				if x.Name == name {
					return 1 + i
				}
			}
			return -9
		}
		if p.IsRT {
			if stallParty == 0 {
				b.Stalls = map[int]time.Duration{0: stallDur}
			}
			for i := range b.Internals {
				if idx(b.Internals[i].Name) == stallParty {
					b.Internals[i].B = &Behav{ThenHealthy: true, Subs: b.Internals[i].Subs, Stalls: map[int]time.Duration{stallAt: stallDur}}
				}
			}
			if late {
				lb := &Behav{ThenHealthy: true, Subs: []string{"INVOKE"}, Stalls: map[int]time.Duration{0: lateDelay}}
				if closeRace {
					// registers while the hold is on (if the hold never fires: when the runtime has polled)
					lb.Stalls = nil
					lb.GateFirst = func() bool {
						rt := rtActor(e, 1)
						return r.HeldNow() || (rt != nil && rt.FirstPoll > 0 && r.Step > rt.FirstPoll+2)
					}
				}
				b.Internals = append(b.Internals, InternalSpec{Name: "late", Subs: []string{"INVOKE"}, B: lb})
			}
		} else if idx(p.ExtName) == stallParty {
			b.Stalls = map[int]time.Duration{stallAt: stallDur}
		}
	})
	r.Desc = fmt.Sprintf("C03 exts=%v dirs=%v inv=%d stallParty=%d at=%d dur=%s late=%v/%s closeRace=%v reorder=%d/%d perm=%d/%d", exts, dirs, nInv, stallParty, stallAt, stallDur, late, lateDelay, closeRace, r.ReorderNum, r.ReorderDen, e.PermNum, e.PermDen)
	r.Logf("%s", r.Desc)
	e.OnQuiescent = func() { c03Step(r, w, e, exts) }
	e.Stuck = func() {
		r.Failf("C03.liveness", "initialisation/invocations did not finish within the bound although every party arrived")
	}
	e.Run()
	c03Final(r, w, e, exts, dirs)
}

// firstDeliveryStep returns the step of the first event delivered to anybody of generation 1 (0 = none).
func firstDeliveryStep(e *Engine) int {
	first := 0
	for _, a := range e.Actors() {
		if a.P.Gen != 1 {
			continue
		}
		for _, d := range a.Deliveries {
			if d.Type == "SHUTDOWN" {
				continue // not an invocation
			}
			if first == 0 || d.Step < first {
				first = d.Step
			}
		}
	}
	return first
}

func c03Step(r *Run, w *World, e *Engine, exts []ExtCfg) {
	rtProc := w.Sup.Proc("runtime-1")
	// runtime is not started before every launched external extension registered
	if rtProc != nil {
		for _, p := range w.Sup.All() {
			if p.IsRT || p.Gen != 1 {
				continue
			}
			a := p.A
			r.Check(a != nil && a.Registered && a.RegStep <= rtProc.ExecStep, "C03.runtime-before-registration",
				"runtime process started at step %d but extension %s had not registered by then", rtProc.ExecStep, p.Name)
		}
	}
	// nobody is served before everyone has arrived
	first := firstDeliveryStep(e)
	allArrived := rtProc != nil
	lastArrival := 0
	for _, a := range e.Actors() {
		if a.P.Gen != 1 {
			continue
		}
		if !a.IsRT && !a.Registered {
			if a.Internal {
				continue // never accepted: not a party
			}
			allArrived = false
			continue
		}
		if a.FirstPoll == 0 {
			allArrived = false
			if first != 0 {
				r.Failf("C03.served-before-arrival", "an event was delivered at step %d but %s (registered=%v) has not asked for its next event yet", first, a.Who, a.Registered)
			}
			continue
		}
		if a.FirstPoll > lastArrival {
			lastArrival = a.FirstPoll
		}
		if first != 0 {
			r.Check(first >= a.FirstPoll, "C03.served-before-arrival", "first delivery at step %d precedes the first poll of %s at step %d", first, a.Who, a.FirstPoll)
		}
	}
	if rt := rtActor(e, 1); rt == nil || rt.FirstPoll == 0 {
		allArrived = false
	}
	if allArrived && len(w.Invokes) > 0 && !r.HeldNow() {
		r.NonTriv = true
		r.Check(first != 0, "C03.init-stuck", "runtime and all %d extensions have arrived (last at step %d) but no event was delivered at the quiescent point of step %d", len(e.Actors())-1, lastArrival, r.Step)
	}
}

func c03Final(r *Run, w *World, e *Engine, exts []ExtCfg, dirs []string) {
	// exec log: one request per non-directory entry, by base name, none for directories, extensions before the runtime
	want := map[string]bool{}
	for _, f := range ExtFiles(exts) {
		want["extension-"+f+"-1"] = true
	}
	seenRT := false
	for _, q := range w.Sup.Requests() {
		if q.Kind != "exec" {
			r.Failf("C03.unexpected-supervisor-request", "%s during a healthy initialisation", q)
		}
		if strings.HasPrefix(q.Name, "runtime-") {
			r.Check(!seenRT && q.Name == "runtime-1", "C03.exec-log", "unexpected runtime exec %s", q.Name)
			seenRT = true
			continue
		}
		r.Check(!seenRT, "C03.exec-log", "extension %s launched after the runtime", q.Name)
		r.Check(want[q.Name], "C03.exec-log", "unexpected or duplicate launch %s (path %s)", q.Name, q.Path)
		delete(want, q.Name)
		base := strings.TrimSuffix(strings.TrimPrefix(q.Name, "extension-"), "-1")
		r.Check(q.Path == "/opt/extensions/"+base, "C03.exec-log", "extension %s launched from %q", q.Name, q.Path)
	}
	r.Check(len(want) == 0, "C03.exec-log", "extensions never launched: %v", want)
	r.Check(seenRT, "C03.exec-log", "runtime never launched")
	first := firstDeliveryStep(e)
	r.Check(first != 0, "C03.init-stuck", "no event was ever delivered")
	// late registrations
	for _, a := range e.Actors() {
		for _, c := range a.Calls {
			if c.Tag != "ext-register" || !c.Done {
				continue
			}
			if c.StartStep > first {
				r.Probe("register-after-first-delivery")
				eb, ok := ParseErr(c.Body)
				r.Check(c.Status == 403 && ok && eb.ErrorType == "Extension.RegistrationClosed", "C03.late-registration",
					"%s registered at step %d after the first delivery (step %d) and got %d %s", a.Who, c.StartStep, first, c.Status, summarize(c.Body))
			} else if c.Status != 200 {
				r.Probe("register-refused-before-first-delivery")
			}
		}
	}
	for _, inv := range w.Invokes {
		r.Check(inv.Call.Is(200), "C03.caller", "invocation %d: %s", inv.N, inv.Call)
	}
}
