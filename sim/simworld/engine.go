package simworld

import (
	"fmt"
	"sort"
	"strings"
	"time"
)

// Op is one scripted step of a party.
type Op struct {
	Kind   string        // see Engine.doOp
	Arg    string        // id selector / error type / name
	N      int           // size / exit status
	D      time.Duration // duration
	Body   []byte
	Hdr    map[string]string
	Events []string
	Site   string // lock-site substring for ops that hold a goroutine

	fromQueue bool
	extraPoll bool
}

// InternalSpec is an internal extension living inside the runtime process.
type InternalSpec struct {
	Name string
	Subs []string
	B    *Behav
}

// Behav is the behaviour of one virtual process (or internal extension).
type Behav struct {
	Script      []Op // executed in order; afterwards healthy loop if ThenHealthy, else idle
	ThenHealthy bool
	Subs        []string // extension: events of the healthy register
	RegName     string   // extension: name to register with ("" = own name)

	OnTerm       string // runtime reaction to SIGTERM: "" = dies by signal 15, "exit0", "exit1", "ignore"
	TermDelay    time.Duration
	KillLatency  time.Duration // between Kill request and death
	EventLatency time.Duration // between any death and delivery of its event
	GateFirst    func() bool   // the party's first call is not made before this reports true
	OnShutdown   string        // extension reaction to SHUTDOWN event: "" = exit 0, "exit1", "exiterror" (posts exit/error, then exits 1), "ignore", "poll" (keeps polling)
	ShutDelay    time.Duration

	Internals []InternalSpec

	// RespBody produces the runtime's answer for an invocation (default: echo tag).
	RespBody func(inv *Invocation) []byte
	// RespErr: answer with /error instead of /response.
	RespErr bool
	// Stalls: before the n-th call (0-based count of calls made so far) wait this long.
	Stalls map[int]time.Duration
	// Agent is the User-Agent the runtime sends ("" = default).
	Agent string
	// Around, when set, returns extra ops to run before and after the answer to an invocation (healthy loop).
	Around func(inv *Invocation) (pre, post []Op)
	// PerInv gives the healthy runtime loop a per-invocation plan (nil = answer with RespBody).
	PerInv func(inv *Invocation) *InvBehav
	// DieAfterInv: the process exits unexpectedly (status 1) once invocation number k has been answered.
	DieAfterInv int
	// DieDuringInv: the process exits unexpectedly (status 1) once invocation number k has been dispatched to the runtime.
	DieDuringInv int
}

// InvBehav is what the (healthy-loop) runtime does with one invocation.
type InvBehav struct {
	Mode       string // "" / "ok": /response with Body; "error": /error; "stall": never answers; "exit": exits with Exit; "oversize" is just a big Body
	Body       []byte
	ErrType    string
	Hdr        map[string]string
	ExtraPolls int // polls again this many times before answering (must get the same invocation)
	Exit       int
	Race       string // "response" / "error": the same answer is also submitted on a second connection, its handler held at RaceSite
	RaceSite   string
}

// InvSpec is one planned invocation.
type InvSpec struct {
	Payload []byte
	CliCtx  string
	Trace   string
	Delay   time.Duration // pause before arrival (after the previous outcome)
	// SlowAfter/SlowPause: the caller reads its answer slowly (bounded receive buffer, pause after SlowAfter body
	// bytes); the next planned caller may arrive as soon as this one's status line has arrived
	SlowAfter int
	SlowPause time.Duration
}

// actorState is engine bookkeeping per actor.
type actorState struct {
	a            *Actor
	b            *Behav
	pc           int
	readyAt      time.Duration // stall: not before this fake time
	stopped      bool          // script ended without healthy continuation
	dieAfter     *int          // next-die: die as soon as the call is parked
	shutSeen     bool
	shutReported bool
	stalledSide  *Call // a submission on a second connection whose body upload is stalled
	resumeCall   *Call // a stalled upload on the main connection that continues at resumeAt
	resumeAt     time.Duration
	exitAt       time.Duration
	exitCode     int
	exitDue      bool
	stalled      map[int]bool
	extraPolls   map[string]int
	queue        []Op
	planned      map[string]bool
}

// procState is engine bookkeeping per process.
type procState struct {
	p         *Proc
	b         *Behav
	termDue   time.Duration
	termArmed bool
	killDue   time.Duration
	killArmed bool
	evDue     time.Duration
	evArmed   bool
	spawned   bool
}

type action struct {
	name string
	do   func()
}

// Engine drives scripted parties, process reactions, callers and time.
type Engine struct {
	w *World
	r *Run

	// BehavFor decides the behaviour of a newly started process.
	BehavFor func(p *Proc) *Behav
	Plan     []InvSpec
	next     int // next planned invocation
	lastDone time.Duration

	PermNum, PermDen int // probability of a non-default external action order
	MaxActions       int
	Bound            time.Duration // liveness bound for the whole run (fake time)

	// Ver is bumped by a scenario when something the engine cannot see has happened (an operator call returned).
	Ver int
	// HoldAcrossTimers: a held goroutine stays held while fake time passes (up to the hold cap) when nothing else is
	// due, so that the emulator's own timers can fire meanwhile.
	HoldAcrossTimers bool
	// OnQuiescent is called after every external action (true quiescence unless a hold is active).
	OnQuiescent func()
	// Extra lets a scenario add its own enabled actions.
	Extra func() []action
	// ExtraFirst puts the scenario's actions first in the canonical order (default choice).
	ExtraFirst bool
	// Stuck is called when nothing is enabled, nothing is due and the bound has passed.
	Stuck func()
	// Done overrides the default termination condition.
	Done func() bool
	// Hold, when it reports true, keeps the next planned caller from arriving.
	Hold func() bool
	// TailIdle keeps the engine running after the last outcome until parties are parked again.
	TailIdle bool

	procs   map[*Proc]*procState
	actors  []*actorState
	byActor map[*Actor]*actorState
	version int
	Actions int
}

func (w *World) NewEngine() *Engine {
	e := &Engine{w: w, r: w.r, PermDen: 1, MaxActions: 2000, procs: map[*Proc]*procState{}, byActor: map[*Actor]*actorState{}}
	e.Bound = time.Duration(w.Cfg.TimeoutSec+15) * time.Second
	e.BehavFor = func(p *Proc) *Behav { return &Behav{ThenHealthy: true, Subs: []string{"INVOKE", "SHUTDOWN"}} }
	w.Eng = e
	return e
}

// ActorState returns the engine state of an actor.
func (e *Engine) actorOf(a *Actor) *actorState { return e.byActor[a] }

// Actors returns all actors created so far.
func (e *Engine) Actors() []*Actor {
	var out []*Actor
	for _, s := range e.actors {
		out = append(out, s.a)
	}
	return out
}

func (e *Engine) addActor(a *Actor, b *Behav) *actorState {
	s := &actorState{a: a, b: b}
	e.actors = append(e.actors, s)
	e.byActor[a] = s
	return s
}

// spawn creates actors for processes the emulator started since the last look.
func (e *Engine) spawn() {
	for _, p := range e.w.Sup.All() {
		ps := e.procs[p]
		if ps == nil {
			ps = &procState{p: p, b: e.BehavFor(p)}
			e.procs[p] = ps
		}
		if ps.spawned || !p.Alive {
			continue
		}
		ps.spawned = true
		if p.IsRT {
			for _, in := range ps.b.Internals {
				ia := e.w.NewActor(p, "int:"+in.Name+fmt.Sprintf("@%d", p.Gen), false)
				ia.Internal = true
				ia.ExtName = in.Name
				b := in.B
				if b == nil {
					b = &Behav{ThenHealthy: true, Subs: in.Subs}
				}
				e.addActor(ia, b)
			}
			a := e.w.NewActor(p, fmt.Sprintf("rt@%d", p.Gen), true)
			a.UA = ps.b.Agent
			e.addActor(a, ps.b)
		} else {
			a := e.w.NewActor(p, fmt.Sprintf("ext:%s@%d", p.ExtName, p.Gen), false)
			a.ExtName = p.ExtName
			e.addActor(a, ps.b)
		}
	}
}

// healthyOp computes the next step of the healthy loop.
func (e *Engine) healthyOp(s *actorState) (Op, bool) {
	a := s.a
	if a.IsRT {
		if a.st == "initerror" {
			return Op{}, false
		}
		if a.st == "refused" {
			// a real runtime treats a refused submission as fatal (aws-lambda-go, the Python RIC: log and exit non-zero)
			return Op{Kind: "exit", N: 1}, true
		}
		if a.st == "pairwait" {
			// one of two concurrent submissions is still outstanding: the runtime waits for it (and lets a stalled
			// upload continue)
			if s.stalledSide != nil {
				return Op{Kind: "resume-side"}, true
			}
			return Op{}, false
		}
		if s.stalledSide != nil && a.CurReqID != "" && a.CurInv != nil && !strings.Contains(s.stalledSide.Path, a.CurReqID) {
			// the next invocation has been delivered: the stalled upload for the previous one completes now
			return Op{Kind: "resume-side"}, true
		}
		if len(s.queue) > 0 {
			op := s.queue[0]
			op.fromQueue = true
			return op, true // popped when executed (doOp)
		}
		if a.CurReqID != "" && s.b.Around != nil && a.CurInv != nil && !s.planned[a.CurReqID] {
			if s.planned == nil {
				s.planned = map[string]bool{}
			}
			s.planned[a.CurReqID] = true
			pre, post := s.b.Around(a.CurInv)
			answer, _ := e.answerOp(s)
			s.queue = append(append(append([]Op{}, pre...), answer), post...)
			op := s.queue[0]
			op.fromQueue = true
			return op, true
		}
		if a.CurReqID != "" {
			return e.answerOp(s)
		}
		return Op{Kind: "next"}, true
	}
	if a.st == "refused" {
		if a.Internal {
			return Op{}, false
		}
		return Op{Kind: "exit", N: 1}, true
	}
	if !a.Registered {
		if a.st == "regfailed" {
			return Op{}, false
		}
		return Op{Kind: "register"}, true
	}
	if a.st == "initerror" || a.st == "exiterror" {
		return Op{}, false
	}
	return Op{Kind: "extnext"}, true
}

// answerOp is the legitimate answer of the healthy runtime loop to its current invocation.
func (e *Engine) answerOp(s *actorState) (Op, bool) {
	a := s.a
	{
		{
			if s.b.PerInv != nil && a.CurInv != nil {
				if pb := s.b.PerInv(a.CurInv); pb != nil {
					if s.extraPolls[a.CurReqID] < pb.ExtraPolls {
						return Op{Kind: "next", extraPoll: true}, true // counted when executed
					}
					switch pb.Mode {
					case "error":
						h := map[string]string{"__type": pb.ErrType}
						for k, v := range pb.Hdr {
							h[k] = v
						}
						return Op{Kind: "error", Body: pb.Body, Hdr: h}, true
					case "stall":
						return Op{Kind: "stall", D: 100000 * time.Second}, true
					case "exit":
						return Op{Kind: "exit", N: pb.Exit}, true
					default:
						body := pb.Body
						if body == nil {
							body = []byte{}
						}
						if pb.Race != "" {
							return Op{Kind: "response-race", Arg: pb.Race, Site: pb.RaceSite, Body: body, Hdr: pb.Hdr}, true
						}
						return Op{Kind: "response", Body: body, Hdr: pb.Hdr}, true
					}
				}
			}
			if s.b.RespErr {
				return Op{Kind: "error"}, true
			}
			return Op{Kind: "response"}, true
		}
	}
}

func (e *Engine) nextOp(s *actorState) (Op, bool) {
	if s.stopped {
		return Op{}, false
	}
	if s.a.IsRT && s.a.st == "pairwait" {
		// one of two concurrent submissions is still outstanding: a runtime waits for both verdicts before it goes on
		if s.stalledSide != nil {
			return Op{Kind: "resume-side"}, true
		}
		return Op{}, false
	}
	if s.pc < len(s.b.Script) {
		return s.b.Script[s.pc], true
	}
	if !s.b.ThenHealthy {
		return Op{}, false
	}
	return e.healthyOp(s)
}

// CurID resolves an id selector for runtime submissions.
func (e *Engine) resolveID(a *Actor, sel string) string {
	switch sel {
	case "", "cur":
		if a.CurReqID != "" {
			return a.CurReqID
		}
		if n := len(a.Deliveries); n > 0 {
			return a.Deliveries[n-1].ReqID // already answered: duplicate
		}
		return "00000000-0000-0000-0000-00000000dead"
	case "last": // the most recent id this runtime saw (answered or not)
		if n := len(a.Deliveries); n > 0 {
			return a.Deliveries[n-1].ReqID
		}
		return "00000000-0000-0000-0000-00000000dead"
	case "prev": // id of the previous invocation known to the world
		var ids []string
		for _, inv := range e.w.Invokes {
			if inv.ReqID != "" && inv.ReqID != a.CurReqID {
				ids = append(ids, inv.ReqID)
			}
		}
		if len(ids) > 0 {
			return ids[len(ids)-1]
		}
		return "00000000-0000-0000-0000-00000000beef"
	case "old": // the oldest id known
		for _, inv := range e.w.Invokes {
			if inv.ReqID != "" && inv.ReqID != a.CurReqID {
				return inv.ReqID
			}
		}
		return "00000000-0000-0000-0000-00000000beef"
	case "unknown":
		return "11111111-2222-3333-4444-555555555555"
	case "empty":
		return ""
	}
	return sel
}

func (e *Engine) respBody(s *actorState, op Op) []byte {
	if op.Body != nil {
		return op.Body
	}
	if op.N > 0 {
		return fillBody(op.N, s.a.CurReqID)
	}
	if s.b.RespBody != nil && s.a.CurInv != nil {
		return s.b.RespBody(s.a.CurInv)
	}
	if s.a.CurInv != nil {
		return []byte(fmt.Sprintf("resp-%d:", s.a.CurInv.N) + string(s.a.CurInv.Payload))
	}
	return []byte("resp-orphan")
}

func fillBody(n int, tag string) []byte {
	b := make([]byte, n)
	pat := []byte("[" + tag + "]")
	if len(pat) == 2 {
		pat = []byte("[x]")
	}
	for i := range b {
		b[i] = pat[i%len(pat)]
	}
	return b
}

// doOp performs one scripted step of an actor.
func (e *Engine) doOp(s *actorState, op Op, scripted bool) {
	a := s.a
	if scripted {
		s.pc++
	} else if op.fromQueue && len(s.queue) > 0 {
		s.queue = s.queue[1:]
	}
	if op.extraPoll {
		if s.extraPolls == nil {
			s.extraPolls = map[string]int{}
		}
		s.extraPolls[a.CurReqID]++
	}
	switch op.Kind {
	case "next":
		a.Next()
	case "next-die":
		a.Next()
		if a.Busy() && a.P.Alive {
			e.r.Fault("crash-while-parked")
			e.w.Sup.Die(a.P, op.N)
			e.armEvent(a.P)
		}
	case "response":
		id := e.resolveID(a, op.Arg)
		exp := id != "" && id == a.CurReqID
		if _, ok := op.Hdr["__bad-mode-when-illegal"]; ok {
			// a submission the runtime knows to be out of turn additionally carries an unknown response mode: the
			// refusal must be the one for the state (or the id), and nothing may reach the invoker
			hdr := map[string]string{}
			if !exp {
				hdr["Lambda-Runtime-Function-Response-Mode"] = "chunked"
				e.r.Fault("illegal-submission-with-unknown-mode")
			}
			op.Hdr = hdr
		}
		c := a.Response(id, e.respBody(s, op), op.Hdr)
		c.ExpectAccept, c.Judged = exp, true
	case "response-race":
		// a duplicate of the answer (another /response, or an /error) for the in-flight id is under way on a second
		// connection - its handler descheduled at a lock site drawn by the scenario - when the answer itself is
		// submitted on the main connection: exactly one of the two may be accepted
		id := a.CurReqID
		body := e.respBody(s, op)
		if id == "" {
			// nothing in flight for this runtime: an ordinary (out of turn) submission
			c := a.Response(e.resolveID(a, "cur"), body, nil)
			c.ExpectAccept, c.Judged = false, true
			break
		}
		if op.Site != "" {
			e.r.AddHold(op.Site, 1, 2)
		}
		e.r.NextStep()
		var side *Call
		if op.Arg == "slow-error" || op.Arg == "slow-response" {
			// the duplicate's body upload stalls half-way; it is resumed while the runtime waits for its verdict, or -
			// if the answer on the main connection was accepted meanwhile - after the next invocation was delivered
			if len(body) < 4 {
				body = append(body, []byte("-padding-for-a-slow-body")...)
			}
			kind, hdr := "response", op.Hdr
			if op.Arg == "slow-error" {
				kind, hdr = "error", map[string]string{"Lambda-Runtime-Function-Error-Type": "Function.Race"}
			}
			conn := e.r.Dial(RapiAddr)
			a.P.Attach(conn)
			side = conn.StartPlan(a.Who+"+", "POST", rtBase+"/invocation/"+id+"/"+kind, hdr, body, len(body)/2)
			side.Tag = "rt-" + kind + "-dup"
			a.SideCalls = append(a.SideCalls, side)
			s.stalledSide = side
			e.r.Fault("slow-body-submission")
		} else if op.Arg == "error" {
			side = a.SideStart("rt-error-dup", "POST", rtBase+"/invocation/"+id+"/error", map[string]string{"Lambda-Runtime-Function-Error-Type": "Function.Race"}, body)
		} else {
			side = a.SideStart("rt-response-dup", "POST", rtBase+"/invocation/"+id+"/response", op.Hdr, body)
		}
		e.r.Settle() // the duplicate runs until it is answered or held
		e.r.Fault("concurrent-duplicate-submission")
		a.ResponseWith(side, id, body, op.Hdr)
	case "upload-then-next":
		// the runtime starts uploading its /response for the in-flight id on a second connection, pauses half-way
		// through the announced body and, while paused, polls /next on its main connection (a runtime with a
		// background uploader). Nothing of the response has reached the caller yet: the poll must not complete the
		// invocation
		id := a.CurReqID
		body := e.respBody(s, op)
		if len(body) < 4 {
			body = append(body, []byte("-padding-for-a-slow-body")...)
		}
		e.r.NextStep()
		conn := e.r.Dial(RapiAddr)
		a.P.Attach(conn)
		side := conn.StartPlan(a.Who+"+", "POST", rtBase+"/invocation/"+id+"/response", op.Hdr, body, len(body)/2)
		side.Tag = "rt-response-dup"
		a.SideCalls = append(a.SideCalls, side)
		s.stalledSide = side
		e.r.Settle()
		e.r.Fault("slow-body-submission")
		e.r.Fault("poll-during-upload")
		a.Next()
	case "resume-side":
		if s.stalledSide != nil {
			e.r.NextStep()
			s.stalledSide.Resume(true)
			s.stalledSide = nil
			e.r.Settle()
			e.w.absorb()
		}
	case "response-die", "error-die":
		id := e.resolveID(a, op.Arg)
		if op.Kind == "error-die" {
			a.Error(id, e.respBody(s, op), "Function.Zombie", nil)
		} else {
			a.Response(id, e.respBody(s, op), op.Hdr)
		}
		if a.P.Alive {
			if a.Busy() {
				e.r.Fault("zombie-request")
			}
			e.r.Fault("process-exit")
			e.w.Sup.Die(a.P, op.N)
			e.armEvent(a.P)
		}
	case "error":
		body := op.Body
		if body == nil {
			body = e.respBody(s, op)
		}
		et := op.Arg2()
		hdr := map[string]string{}
		for k, v := range op.Hdr {
			if k != "__type" {
				hdr[k] = v
			}
		}
		id := e.resolveID(a, op.Arg)
		exp := id != "" && id == a.CurReqID
		c := a.Error(id, body, et, hdr)
		c.ExpectAccept, c.Judged = exp, true
	case "initerror":
		body := op.Body
		if body == nil {
			body = []byte(`{"errorMessage":"init failed","errorType":"Runtime.InitBoom"}`)
		}
		a.InitError(body, op.Arg)
	case "restorenext":
		a.RestoreNext()
	case "restoreerror":
		a.RestoreError(op.Body, op.Arg)
	case "raw":
		parts := strings.SplitN(op.Arg, " ", 2)
		a.Raw(parts[0], parts[1], op.Hdr, op.Body)
	case "register":
		name := op.Arg
		if name == "" {
			name = s.b.RegName
		}
		if name == "" {
			name = a.ExtName
		}
		evs := op.Events
		if evs == nil {
			evs = s.b.Subs
		}
		c := a.Register(name, evs, op.Hdr)
		if c.Done && c.Status != 200 && !scripted {
			a.st = "regfailed"
		}
	case "extnext":
		a.ExtNext()
		e.afterExtNext(s)
	case "extnext-die":
		a.ExtNext()
		if a.Busy() && a.P.Alive {
			e.r.Fault("crash-while-parked")
			e.w.Sup.Die(a.P, op.N)
			e.armEvent(a.P)
		}
	case "extiniterror":
		t := op.Arg
		if t == "" {
			t = "Extension.SimInit"
		}
		if t == "-" {
			t = ""
		}
		a.ExtInitError(t)
	case "extexiterror":
		t := op.Arg
		if t == "" {
			t = "Extension.SimExit"
		}
		if t == "-" {
			t = ""
		}
		a.ExtExitError(t)
	case "extraw": // call with a doctored identifier: Arg = "missing|invalid|unknown next|initerror|exiterror"
		f := strings.Fields(op.Arg)
		hdr := map[string]string{}
		switch f[0] {
		case "invalid":
			hdr["Lambda-Extension-Identifier"] = "not-a-uuid"
		case "unknown":
			hdr["Lambda-Extension-Identifier"] = "99999999-8888-7777-6666-555555555555"
		}
		path := extBase + "/event/next"
		method := "GET"
		if f[1] == "initerror" {
			path, method = extBase+"/init/error", "POST"
			hdr["Lambda-Extension-Function-Error-Type"] = "X.Y"
		} else if f[1] == "exiterror" {
			path, method = extBase+"/exit/error", "POST"
			hdr["Lambda-Extension-Function-Error-Type"] = "X.Y"
		}
		a.Raw(method, path, hdr, nil)
	case "stalled-upload": // sends half of the body of a /response or /error for the current id and then nothing more
		id := e.resolveID(a, "cur")
		body := []byte("stalled-upload-body-0123456789-0123456789")
		hdr := map[string]string{}
		if op.Arg == "error" {
			hdr["Lambda-Runtime-Function-Error-Type"] = "Function.Stalled"
		}
		e.r.NextStep()
		a.Cur = a.Conn.StartPlan(a.Who, "POST", rtBase+"/invocation/"+id+"/"+op.Arg, hdr, body, len(body)/2)
		a.Cur.Tag = "rt-stalled-upload"
		a.Calls = append(a.Calls, a.Cur)
		e.r.Settle()
		e.r.Fault("stalled-body-upload")
		if op.D > 0 {
			s.resumeCall, s.resumeAt = a.Cur, e.r.Now()+op.D
		}
	case "truncated-response": // sends half of the body of a /response for the current id, then the process dies
		id := e.resolveID(a, op.Arg)
		body := e.respBody(s, op)
		if len(body) < 4 {
			body = []byte("truncated-body-0123456789")
		}
		e.r.NextStep()
		a.Cur = a.Conn.StartPlan(a.Who, "POST", rtBase+"/invocation/"+id+"/response", nil, body, len(body)/2)
		a.Cur.Tag = "rt-truncated"
		a.Calls = append(a.Calls, a.Cur)
		e.r.Settle()
		e.r.Fault("truncated-body")
		a.Cur.Resume(false)
		e.r.Settle()
		if a.P.Alive {
			e.w.Sup.Die(a.P, op.N)
			e.armEvent(a.P)
		}
	case "stall":
		s.readyAt = e.r.Now() + op.D
		e.r.Fault("stall")
	case "until": // stall until CurInv.ArrivalAt + D (absolute offset from the arrival of the current invocation)
		if a.CurInv != nil {
			s.readyAt = a.CurInv.ArrivalAt + op.D
		}
	case "untilinv": // stall until (arrival of the latest invocation) + D
		if n := len(e.w.Invokes); n > 0 {
			s.readyAt = e.w.Invokes[n-1].ArrivalAt + op.D
		}
	case "exit":
		e.r.Fault("process-exit")
		e.w.Sup.Die(a.P, op.N)
		e.armEvent(a.P)
	case "stop":
		s.stopped = true
	default:
		e.r.Troublef("unknown op %q", op.Kind)
	}
}

// Arg2 is the error type of an "error" op carried in Hdr["__type"] (kept out of Arg, which selects the id).
func (o Op) Arg2() string {
	if o.Hdr != nil {
		if t, ok := o.Hdr["__type"]; ok {
			return t
		}
	}
	return "Function.SimError"
}

func (e *Engine) afterExtNext(s *actorState) {}

func (e *Engine) armEvent(p *Proc) {
	ps := e.procs[p]
	if ps == nil {
		ps = &procState{p: p, b: e.BehavFor(p), spawned: true}
		e.procs[p] = ps
	}
	if !ps.evArmed {
		ps.evArmed = true
		ps.evDue = e.r.Now() + ps.b.EventLatency
	}
}

// enabled computes the immediate actions in canonical order and the earliest future due time.
func (e *Engine) enabled() (acts []action, due time.Duration, hasDue bool) {
	now := e.r.Now()
	consider := func(t time.Duration) bool {
		if t <= now {
			return true
		}
		if !hasDue || t < due {
			due, hasDue = t, true
		}
		return false
	}
	procs := e.w.Sup.All()
	// 1. process reactions
	for _, p := range procs {
		ps := e.procs[p]
		if ps == nil {
			continue
		}
		p := p
		if p.Alive && p.KillReq > 0 {
			if !ps.killArmed {
				ps.killArmed = true
				ps.killDue = p.KillAt + ps.b.KillLatency
			}
			if consider(ps.killDue) {
				acts = append(acts, action{"kill-effect " + p.Name, func() {
					e.r.NextStep()
					e.w.Sup.Die(p, KillSignal)
					e.armEvent(p)
					e.r.Settle()
				}})
			}
		}
		if p.Alive && p.TermReq > 0 && ps.b.OnTerm != "ignore" {
			if !ps.termArmed {
				ps.termArmed = true
				ps.termDue = p.TermAt + ps.b.TermDelay
			}
			if consider(ps.termDue) {
				code := TermSignal
				switch ps.b.OnTerm {
				case "exit0":
					code = 0
				case "exit1":
					code = 1
				}
				acts = append(acts, action{"term-effect " + p.Name, func() {
					e.r.NextStep()
					e.w.Sup.Die(p, code)
					e.armEvent(p)
					e.r.Settle()
				}})
			}
		}
		if p.Alive && ps.b.DieAfterInv > 0 && len(e.w.Invokes) >= ps.b.DieAfterInv && e.w.Invokes[ps.b.DieAfterInv-1].Call.Done {
			acts = append(acts, action{"crash " + p.Name, func() {
				e.r.NextStep()
				e.r.Fault("process-exit")
				e.w.Sup.Die(p, 1)
				e.armEvent(p)
				e.r.Settle()
			}})
		}
		if p.Alive && ps.b.DieDuringInv > 0 && len(e.w.Invokes) >= ps.b.DieDuringInv && e.w.Invokes[ps.b.DieDuringInv-1].Dispatched && e.w.Invokes[ps.b.DieDuringInv-1].Call.Pending() {
			acts = append(acts, action{"crash " + p.Name, func() {
				e.r.NextStep()
				e.r.Fault("process-exit")
				e.w.Sup.Die(p, 1)
				e.armEvent(p)
				e.r.Settle()
			}})
		}
		if !p.Alive && !p.EventSent {
			if !ps.evArmed {
				ps.evArmed = true
				ps.evDue = p.DeathAt + ps.b.EventLatency
			}
			if consider(ps.evDue) {
				acts = append(acts, action{"deliver-event " + p.Name, func() {
					e.r.NextStep()
					e.w.Sup.Deliver(p)
					e.r.Settle()
				}})
			}
		}
	}
	// 1b. stalled uploads that continue
	for _, s := range e.actors {
		s := s
		if s.resumeCall != nil && s.a.P.Alive && s.resumeCall.Pending() && consider(s.resumeAt) {
			acts = append(acts, action{"resume-upload " + s.a.Who, func() {
				c := s.resumeCall
				s.resumeCall = nil
				e.r.NextStep()
				c.Resume(true)
				e.r.Settle()
				e.w.absorb()
			}})
		}
	}
	// 2. extension exits after SHUTDOWN event
	for _, s := range e.actors {
		s := s
		a := s.a
		if !a.P.Alive || a.IsRT || a.Internal {
			continue
		}
		if !s.shutSeen {
			if n := len(a.Deliveries); n > 0 && a.Deliveries[n-1].Type == "SHUTDOWN" {
				s.shutSeen = true
				switch s.b.OnShutdown {
				case "ignore":
				case "poll":
					// keeps using the API, after a pause of ShutDelay
					if s.b.ShutDelay > 0 {
						s.readyAt = e.r.Now() + s.b.ShutDelay
					}
				default:
					s.exitDue = true
					s.exitAt = e.r.Now() + s.b.ShutDelay
					if s.b.OnShutdown == "exit1" || s.b.OnShutdown == "exiterror" {
						s.exitCode = 1
					}
				}
			}
		}
		if s.exitDue && consider(s.exitAt) {
			acts = append(acts, action{"shutdown-exit " + a.P.Name, func() {
				if s.b.OnShutdown == "exiterror" && !s.shutReported && !a.Busy() {
					// reports a failure of its own shutdown first, then exits
					s.shutReported = true
					e.r.NextStep()
					a.ExtExitError("Extension.ShutdownBoom")
					e.r.Settle()
					return
				}
				s.exitDue = false
				e.r.NextStep()
				e.w.Sup.Die(a.P, s.exitCode)
				e.armEvent(a.P)
				e.r.Settle()
			}})
		}
	}
	// 3. actor steps
	for _, s := range e.actors {
		s := s
		a := s.a
		if !a.P.Alive || a.Busy() {
			continue
		}
		if s.shutSeen && s.b.OnShutdown != "poll" {
			continue
		}
		op, ok := e.nextOp(s)
		if !ok {
			continue
		}
		if s.b.GateFirst != nil && len(a.Calls) == 0 && !s.b.GateFirst() {
			continue // its first call waits for a condition of the scenario
		}
		if d, ok := s.b.Stalls[len(a.Calls)]; ok && !s.stalled[len(a.Calls)] {
			if s.stalled == nil {
				s.stalled = map[int]bool{}
			}
			s.stalled[len(a.Calls)] = true
			s.readyAt = now + d
			e.r.Fault("stall")
			e.r.Logf("stall %s for %s before call %d", a.Who, d, len(a.Calls))
		}
		if !consider(s.readyAt) {
			continue
		}
		scripted := s.pc < len(s.b.Script)
		acts = append(acts, action{a.Who + " " + op.Kind, func() { e.doOp(s, op, scripted) }})
	}
	// 4. next caller
	if e.next < len(e.Plan) && e.callersIdle() && (e.Hold == nil || !e.Hold()) {
		spec := e.Plan[e.next]
		if consider(e.lastDone + spec.Delay) {
			acts = append(acts, action{"caller", func() {
				e.next++
				if spec.SlowPause > 0 {
					e.w.InvokeSlow(spec.Payload, spec.CliCtx, spec.Trace, spec.SlowAfter, spec.SlowPause)
				} else {
					e.w.Invoke(spec.Payload, spec.CliCtx, spec.Trace)
				}
			}})
		}
	}
	if e.Extra != nil {
		if e.ExtraFirst {
			acts = append(e.Extra(), acts...)
		} else {
			acts = append(acts, e.Extra()...)
		}
	}
	return acts, due, hasDue
}

func (e *Engine) callersIdle() bool {
	for _, inv := range e.w.Invokes {
		if inv.Call.Pending() && !(inv.Call.SlowPause > 0 && inv.Call.GotStatus) {
			return false
		}
	}
	return true
}

func (e *Engine) noteOutcomes() {
	for _, inv := range e.w.Invokes {
		if inv.Call.Done && inv.Call.EndAt > e.lastDone {
			e.lastDone = inv.Call.EndAt
		}
	}
}

func (e *Engine) finished() bool {
	if e.Done != nil {
		return e.Done()
	}
	if e.next < len(e.Plan) {
		return false
	}
	for _, inv := range e.w.Invokes {
		if inv.Call.Pending() {
			return false // (a slow reader is still reading)
		}
	}
	return true
}

// Run drives the world until the plan is finished (or the bound passes).
func (e *Engine) Run() {
	r := e.r
	for e.Actions = 0; e.Actions < e.MaxActions; {
		e.spawn()
		e.w.absorb()
		e.noteOutcomes()
		acts, due, hasDue := e.enabled()
		if len(acts) == 0 && r.HeldNow() && !hasDue {
			if e.HoldAcrossTimers {
				// the descheduled goroutine stays descheduled while the emulator's own timers may fire, for at most
				// the hold cap of fake time (SleepUntil releases it then)
				v := e.worldVersion()
				if !r.SleepUntil(r.MaxHoldTime, func() bool { return e.worldVersion() != v || !r.HeldNow() }) && r.HeldNow() {
					r.ReleaseHolds()
					r.Settle()
				}
				continue
			}
			// nothing else can happen: the descheduled goroutine gets to run
			r.ReleaseHolds()
			r.Settle()
			continue
		}
		if len(acts) == 0 {
			if e.finished() {
				return
			}
			// nothing to do now: let time pass until something is due or happens
			var wait time.Duration
			if hasDue {
				wait = due - r.Now()
			} else {
				wait = e.Bound - r.Now()
				if wait <= 0 {
					if e.Stuck != nil {
						e.Stuck()
					}
					return
				}
			}
			v := e.worldVersion()
			r.SleepUntil(wait, func() bool { return e.worldVersion() != v })
			if e.OnQuiescent != nil && !r.HeldNow() {
				e.OnQuiescent()
			}
			continue
		}
		idx := r.T.Biased(len(acts), e.PermNum, e.PermDen)
		r.Logf("act   %s [%d/%d @%d]", acts[idx].name, idx, len(acts), r.T.Pos)
		acts[idx].do()
		e.Actions++
		if e.OnQuiescent != nil && !r.HeldNow() {
			e.OnQuiescent()
		}
		if r.Now() > e.Bound {
			if e.finished() {
				return
			}
			if e.Stuck != nil {
				e.Stuck()
			}
			return
		}
	}
	if !e.finished() {
		if e.Stuck != nil {
			r.Logf("engine: action limit reached")
			e.Stuck()
			return
		}
		r.Troublef("engine: action limit reached")
	}
}

// worldVersion changes whenever something the engine could react to happened.
func (e *Engine) worldVersion() int {
	r := e.r
	r.mu.Lock()
	n := 0
	for _, c := range r.calls {
		if c.Done {
			n++
		}
	}
	r.mu.Unlock()
	n += 7 * e.Ver
	s := e.w.Sup
	s.mu.Lock()
	n += 1000 * len(s.Reqs)
	for _, p := range s.Order {
		if !p.Alive {
			n += 100000
		}
	}
	s.mu.Unlock()
	return n
}

// SupLog returns the supervisor requests ordered by fake time, then step, then arrival; requests of the same
// kind that arrived in the same step (issued by concurrent goroutines) are ordered by name.
func (w *World) SupLog() []SupReq {
	reqs := w.Sup.Requests()
	sort.SliceStable(reqs, func(i, j int) bool {
		if reqs[i].At != reqs[j].At {
			return reqs[i].At < reqs[j].At
		}
		if reqs[i].Step != reqs[j].Step {
			return reqs[i].Step < reqs[j].Step
		}
		return reqs[i].seq < reqs[j].seq
	})
	for i := 0; i < len(reqs); {
		j := i + 1
		for j < len(reqs) && reqs[j].Kind == reqs[i].Kind && reqs[j].Step == reqs[i].Step && reqs[j].At == reqs[i].At {
			j++
		}
		seg := reqs[i:j]
		sort.SliceStable(seg, func(a, b int) bool { return seg[a].Name < seg[b].Name })
		i = j
	}
	return reqs
}
