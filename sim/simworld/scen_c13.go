package simworld

import (
	"encoding/json"
	"fmt"
	"sort"
	"strings"
	"time"
)

// C13: Extensions API - registration rules and lifecycle automaton (DESIGN appendix A.2).
func init() {
	Scenarios["C13"] = scenC13
}

type c13Call struct {
	c       *Call
	kind    string // register | next | initerror | exiterror
	name    string // register: name sent
	events  []string
	idKind  string // "", missing, invalid, unknown
	noType  bool   // error report without the error-type header
	badBody bool
	feature string
	side    bool
	actor   *Actor
}

func scenC13(r *Run, job *Job) {
	t := r.T
	nExt := 1 + t.Draw(3)
	var exts []ExtCfg
	for i := 0; i < nExt; i++ {
		exts = append(exts, ExtCfg{Name: fmt.Sprintf("e%d", i+1), Subs: extSubSets[t.Draw(len(extSubSets))]})
	}
	nInt := []int{0, 1, 2, 3, 11}[t.Weighted(2, 3, 3, 1, 2)]
	if nInt == 11 && t.Chance(1, 2) {
		// one of the registrations near the limit is descheduled inside the registration service while the others
		// proceed
		// (the Nth lock acquisition inside CreateInternalAgent: 7..11 when a registration takes the lock once, further
		// out for an implementation that takes it more than once per registration)
		nth := 7 + t.Draw(5)
		if t.Chance(1, 2) {
			nth = 12 + t.Draw(11)
		}
		r.AddHold("registrationServiceImpl).CreateInternalAgent", nth, 1+t.Draw(3))
	}
	fn := []string{"", "my-func"}[t.Draw(2)]
	handler := []string{"", "app.handler"}[t.Draw(2)]
	timeoutSec := 3
	if t.Chance(1, 3) {
		r.ReorderNum, r.ReorderDen = 1, 4
	}
	w := r.NewWorld(WorldCfg{TimeoutSec: timeoutSec, ExtFiles: ExtFiles(exts), FunctionName: fn, HandlerEnv: handler}, job.Seed)
	e := w.NewEngine()
	e.Bound = 60 * time.Second
	e.PermNum, e.PermDen = 1, 2
	var calls []*c13Call
	seq := 0
	// custom ops executed through Extra-free scripting: we use "c13" ops interpreted here
	do := func(a *Actor, op Op) {
		cc := &c13Call{kind: op.Kind, actor: a}
		seq++
		switch op.Kind {
		case "register":
			hdr := map[string]string{}
			cc.name = op.Arg
			cc.events = op.Events
			if op.N == 1 {
				cc.feature = "accountId"
				hdr["Lambda-Extension-Accept-Feature"] = "accountId"
			} else if op.N == 2 {
				cc.feature = "bogus"
				hdr["Lambda-Extension-Accept-Feature"] = "bogus, other"
			}
			if op.D == 1 {
				cc.badBody = true
				h := map[string]string{"Lambda-Extension-Name": op.Arg}
				cc.c = a.Raw("POST", extBase+"/register", h, []byte("{not json"))
				cc.c.Tag = "ext-register-bad"
			} else {
				name := op.Arg
				if name == "" {
					name = " "
				}
				cc.c = a.Register(name, op.Events, hdr)
			}
		case "next", "initerror", "exiterror":
			hdr := map[string]string{}
			switch op.Arg {
			case "missing":
				cc.idKind = "missing"
			case "invalid":
				cc.idKind = "invalid"
				hdr["Lambda-Extension-Identifier"] = "not-a-uuid"
			case "unknown":
				cc.idKind = "unknown"
				hdr["Lambda-Extension-Identifier"] = "99999999-8888-7777-6666-555555555555"
			default:
				if a.ExtID != "" {
					hdr["Lambda-Extension-Identifier"] = a.ExtID
				} else {
					cc.idKind = "missing"
				}
			}
			method, path, tag := "GET", extBase+"/event/next", "ext-next"
			if op.Kind == "initerror" {
				method, path, tag = "POST", extBase+"/init/error", "ext-initerror"
			} else if op.Kind == "exiterror" {
				method, path, tag = "POST", extBase+"/exit/error", "ext-exiterror"
			}
			if op.Kind != "next" {
				if op.N == 9 {
					cc.noType = true
				} else {
					hdr["Lambda-Extension-Function-Error-Type"] = "Extension.SimReport"
				}
			}
			if a.Busy() {
				cc.side = true
				cc.c = a.Side(tag, method, path, hdr, nil)
			} else {
				a.w.r.NextStep()
				a.Cur = a.Conn.Start(a.Who, method, path, hdr, nil)
				a.Cur.Tag = tag
				a.Calls = append(a.Calls, a.Cur)
				if tag == "ext-next" && cc.idKind == "" && a.FirstPoll == 0 {
					a.FirstPoll = a.w.r.Step
				}
				a.w.r.Settle()
				cc.c = a.Cur
			}
		}
		calls = append(calls, cc)
	}
	type scripted struct {
		a   *Actor
		ops []Op
		pc  int
	}
	var actors []*scripted
	drawOps := func(name string, internal bool) []Op {
		n := 2 + t.Draw(9)
		var ops []Op
		for i := 0; i < n; i++ {
			switch t.Weighted(4, 6, 2, 2, 2) {
			case 0:
				evs := [][]string{{"INVOKE", "SHUTDOWN"}, {"INVOKE"}, {"SHUTDOWN"}, {}, {"BOGUS"}, {"INVOKE", "NOPE"}}[t.Draw(6)]
				nm := name
				switch t.Draw(6) {
				case 0:
					nm = ""
				case 1:
					nm = "e1" // collides with an external extension
				case 2:
					nm = "i1"
				}
				op := Op{Kind: "register", Arg: nm, Events: evs, N: t.Draw(3)}
				if t.Chance(1, 10) {
					op.D = 1
				}
				ops = append(ops, op)
			case 1:
				ops = append(ops, Op{Kind: "next", Arg: []string{"", "", "", "", "missing", "invalid", "unknown"}[t.Draw(7)]})
			case 2:
				ops = append(ops, Op{Kind: "initerror", Arg: []string{"", "", "missing", "unknown"}[t.Draw(4)], N: []int{0, 0, 0, 9}[t.Draw(4)]})
			case 3:
				ops = append(ops, Op{Kind: "exiterror", Arg: []string{"", "", "invalid", "unknown"}[t.Draw(4)], N: []int{0, 0, 0, 9}[t.Draw(4)]})
			case 4:
				ops = append(ops, Op{Kind: "pause"})
			}
		}
		return ops
	}
	e.BehavFor = func(p *Proc) *Behav {
		b := &Behav{ThenHealthy: false}
		if p.IsRT {
			b.ThenHealthy = true
			b.Stalls = map[int]time.Duration{0: time.Duration(t.Draw(3)) * 100 * time.Millisecond}
			if nInt == 11 {
				b.Stalls[0] = 500 * time.Millisecond
			}
			if w.GenOrdinal(p.Gen) == 1 {
				for i := 0; i < nInt; i++ {
					b.Internals = append(b.Internals, InternalSpec{Name: fmt.Sprintf("i%d", i+1), B: &Behav{}})
				}
			}
			return b
		}
		if w.GenOrdinal(p.Gen) > 1 {
			b.ThenHealthy = true
			b.Subs = []string{"INVOKE", "SHUTDOWN"}
		}
		return b
	}
	// scripted extension steps are offered to the engine as extra actions
	known := map[*Actor]bool{}
	e.Extra = func() []action {
		for _, a := range e.Actors() {
			if a.IsRT || known[a] || w.GenOrdinal(a.P.Gen) != 1 {
				continue
			}
			known[a] = true
			name := a.ExtName
			ops := drawOps(name, a.Internal)
			if nInt == 11 && a.Internal {
				// the eleven-registrations case: everybody starts with a proper registration
				ops = append([]Op{{Kind: "register", Arg: name, Events: []string{"INVOKE"}}}, ops...)
			}
			actors = append(actors, &scripted{a: a, ops: ops})
		}
		var acts []action
		for _, s := range actors {
			s := s
			if s.pc >= len(s.ops) || !s.a.P.Alive {
				continue
			}
			op := s.ops[s.pc]
			if op.Kind == "pause" {
				s.pc++
				continue
			}
			if s.a.Busy() && op.Kind == "register" {
				continue // register is only issued on the main connection
			}
			acts = append(acts, action{s.a.Who + " c13:" + op.Kind, func() { s.pc++; do(s.a, op) }})
		}
		return acts
	}
	e.Plan = []InvSpec{{Payload: Tagged("ev1", 16)}, {Payload: Tagged("ev2", 16)}}
	r.Desc = fmt.Sprintf("C13 exts=%v internals=%d fn=%q handler=%q reorder=%d/%d", exts, nInt, fn, handler, r.ReorderNum, r.ReorderDen)
	r.Logf("%s", r.Desc)
	e.Stuck = func() {}
	e.Run()
	c13Judge(r, w, e, calls, exts, fn, handler)
}

func c13Judge(r *Run, w *World, e *Engine, calls []*c13Call, exts []ExtCfg, fn, handler string) {
	if fn == "" {
		fn = "test_function"
	}
	external := map[string]bool{}
	for _, x := range exts {
		external[x.Name] = true
	}
	// reference state per extension name
	type ref struct {
		state      string // "", registered, ready, running, initerror, exiterror
		id         string
		events     []string
		internal   bool
		readySince int
	}
	refs := map[string]*ref{}
	byID := map[string]*ref{}
	launched := len(exts)
	internalAccepted := 0
	rt := rtActor(e, 1)
	closeStep, firstDelivery := 1<<30, 1<<30
	if rt != nil && rt.FirstPoll > 0 {
		closeStep = rt.FirstPoll
	}
	if fd := firstDeliveryStep(e); fd > 0 {
		firstDelivery = fd
	}
	sort.SliceStable(calls, func(i, j int) bool { return calls[i].c.Seq < calls[j].c.Seq })
	// a parked next that later received an event: the reference moves ready -> running at that step
	type completion struct {
		step int
		id   string
	}
	var completions []completion
	for _, cc := range calls {
		c := cc.c
		if cc.kind == "next" && cc.idKind == "" && c.Done && c.Err == nil && c.Status == 200 && c.EndStep > c.StartStep {
			completions = append(completions, completion{c.EndStep, c.ReqHdr["Lambda-Extension-Identifier"]})
		}
	}
	errType := func(c *Call) string {
		eb, _ := ParseErr(c.Body)
		return eb.ErrorType
	}
	expect403 := func(cc *c13Call, typ, why string) {
		c := cc.c
		r.Check(c.Status == 403 && errType(c) == typ, "C13.refusal", "%s %s %s: expected 403 %s (%s), got %d %s", cc.actor.Who, c.Method, c.Path, typ, why, c.Status, summarize(c.Body))
	}
	applyCompletions := func(upTo int) {
		for _, k := range completions {
			if k.step <= upTo {
				if rf := byID[k.id]; rf != nil && rf.state == "ready" && rf.readySince < k.step {
					rf.state = "running"
				}
			}
		}
	}
	for _, cc := range calls {
		c := cc.c
		if (c.Err != nil || !c.Done) && cc.kind != "next" {
			continue
		}
		if cc.kind == "next" && c.Err != nil {
			// parked until its process died: it was legal iff it could park
			applyCompletions(c.StartStep - 1)
			if rf := byID[c.ReqHdr["Lambda-Extension-Identifier"]]; rf != nil && cc.idKind == "" && (rf.state == "registered" || rf.state == "running") {
				rf.state, rf.readySince = "ready", c.StartStep
			}
			continue
		}
		r.NonTriv = true
		applyCompletions(c.StartStep - 1)
		switch cc.kind {
		case "register":
			r.Probe("register")
			name := strings.TrimSpace(cc.name)
			if name == "" {
				expect403(cc, "Extension.InvalidExtensionName", "empty name")
				continue
			}
			if cc.badBody {
				expect403(cc, "InvalidRequestFormat", "malformed body")
				continue
			}
			badEvent := false
			for _, ev := range cc.events {
				if ev != "INVOKE" && ev != "SHUTDOWN" {
					badEvent = true
				}
				if ev == "SHUTDOWN" && !external[name] {
					badEvent = true
				}
			}
			if badEvent {
				expect403(cc, "Extension.InvalidEventType", "event not allowed")
				continue
			}
			rf := refs[name]
			if external[name] {
				if rf != nil {
					expect403(cc, "Extension.InvalidExtensionState", "already registered")
					continue
				}
			} else {
				// internal
				if c.StartStep > firstDelivery {
					expect403(cc, "Extension.RegistrationClosed", "after the first delivery")
					continue
				}
				if c.StartStep >= closeStep {
					// between "runtime ready" and the first delivery: unspecified, but an acceptance counts
					if c.Status != 200 {
						continue
					}
				} else {
					if c.EndStep > c.StartStep {
						// it was descheduled in the middle: where it is ordered among the others is not observable; what
						// counts is the total (checked below)
						if c.Status != 200 {
							continue
						}
					} else if launched+internalAccepted >= 10 && r.holdEverFired() && rf != nil && c.Status == 403 && errType(c) == "Extension.InvalidExtensionState" {
						// both refusals apply (limit reached, name taken) and a descheduled registration blurred the order
						continue
					} else if launched+internalAccepted >= 10 {
						expect403(cc, "Extension.TooManyExtensions", "ten extensions exist")
						r.Probe("eleventh-extension")
						continue
					}
					if rf != nil {
						expect403(cc, "Extension.InvalidExtensionState", "name already registered")
						continue
					}
				}
			}
			if c.Status != 200 {
				r.Failf("C13.register-refused", "%s register(name=%q events=%v) answered %d %s, expected 200", cc.actor.Who, name, cc.events, c.Status, summarize(c.Body))
			}
			id := c.Hdr.Get("Lambda-Extension-Identifier")
			r.Check(id != "" && byID[id] == nil, "C13.identifier", "%s register: identifier %q missing or reused", cc.actor.Who, id)
			var body map[string]interface{}
			json.Unmarshal(c.Body, &body)
			r.Check(body["functionName"] == fn && body["functionVersion"] == "$LATEST" && body["handler"] == handler, "C13.register-data", "%s register response %s does not equal the init parameters (%s, $LATEST, %s)", cc.actor.Who, summarize(c.Body), fn, handler)
			if _, has := body["accountId"]; has && cc.feature != "accountId" {
				r.Failf("C13.register-data", "%s register response carries accountId although the feature was not requested: %s", cc.actor.Who, summarize(c.Body))
			}
			nr := &ref{state: "registered", id: id, events: cc.events, internal: !external[name]}
			refs[name] = nr
			byID[id] = nr
			if !external[name] {
				internalAccepted++
			}
		default:
			if cc.idKind == "missing" {
				expect403(cc, "Extension.MissingExtensionIdentifier", "no identifier")
				continue
			}
			if cc.idKind == "invalid" {
				expect403(cc, "Extension.InvalidExtensionIdentifier", "identifier is not a uuid")
				continue
			}
			if cc.kind != "next" && cc.noType {
				expect403(cc, "Extension.MissingHeader", "no error type header")
				continue
			}
			if cc.idKind == "unknown" {
				expect403(cc, "Extension.UnknownExtensionIdentifier", "unknown identifier")
				continue
			}
			rf := byID[c.ReqHdr["Lambda-Extension-Identifier"]]
			if rf == nil {
				continue
			}
			// a parked next that was delivered an event moves the reference to running
			switch cc.kind {
			case "next":
				switch rf.state {
				case "registered", "running":
					if c.Done && c.Status != 200 {
						// a parked next may legitimately end in a refusal only if the extension reported exit/error meanwhile
						reported := false
						for _, o := range calls {
							if o.kind == "exiterror" && o.c.Done && o.c.Err == nil && o.c.Status == 202 && o.c.ReqHdr["Lambda-Extension-Identifier"] == rf.id && o.c.StartStep > c.StartStep && o.c.EndStep <= c.EndStep {
								reported = true
							}
						}
						r.Check(reported && c.EndStep > c.StartStep && c.Status == 403, "C13.next-refused", "%s next in state %s answered %d %s", cc.actor.Who, rf.state, c.Status, summarize(c.Body))
					}
					if c.Done && c.Err == nil && c.Status == 200 && c.EndStep > c.StartStep {
						// a parked poll that is answered with an event: the extension must not have reported its exit meanwhile
						for _, o := range calls {
							if o.kind == "exiterror" && o.c.Done && o.c.Err == nil && o.c.Status == 202 && o.c.ReqHdr["Lambda-Extension-Identifier"] == rf.id && o.c.StartStep > c.StartStep && o.c.EndStep < c.EndStep {
								r.Failf("C13.exit-error-not-final", "%s: its parked next (issued at step %d) was answered %d with an event at step %d although its exit/error had been accepted at step %d", cc.actor.Who, c.StartStep, c.Status, c.EndStep, o.c.EndStep)
							}
						}
					}
					if c.Done && c.EndStep == c.StartStep {
						rf.state = "running"
					} else {
						rf.state, rf.readySince = "ready", c.StartStep
					}
				case "ready":
					if c.Done && cc.side {
						expect403(cc, "Extension.InvalidExtensionState", "a next is already parked")
					}
				case "initerror", "exiterror":
					if c.Done {
						expect403(cc, "Extension.InvalidExtensionState", "terminal state "+rf.state)
					}
				}
			case "initerror":
				switch rf.state {
				case "registered":
					r.Check(c.Status == 202, "C13.init-error-refused", "%s init/error right after register answered %d %s", cc.actor.Who, c.Status, summarize(c.Body))
					rf.state = "initerror"
				case "initerror":
				default:
					expect403(cc, "Extension.InvalidExtensionState", "init/error in state "+rf.state)
				}
			case "exiterror":
				switch rf.state {
				case "registered", "ready", "running":
					r.Check(c.Status == 202, "C13.exit-error-refused", "%s exit/error in state %s answered %d %s", cc.actor.Who, rf.state, c.Status, summarize(c.Body))
					rf.state = "exiterror"
				case "exiterror":
				default:
					expect403(cc, "Extension.InvalidExtensionState", "exit/error in state "+rf.state)
				}
			}
		}
	}
	// at most ten extensions exist
	r.Check(launched+internalAccepted <= 10, "C13.too-many-extensions", "%d external extensions were launched and %d internal registrations accepted: more than ten extensions exist", launched, internalAccepted)
	// ---- the barriers themselves: only accepted calls move them ------------------------------------------
	// (a) the runtime of the first generation is started only once as many external registrations were
	// accepted as external extensions were launched; refused registrations do not count
	if rtp := w.Sup.Proc("runtime-1"); rtp != nil && len(exts) > 0 {
		accepted := 0
		refusedBefore := 0
		for _, cc := range calls {
			c := cc.c
			if cc.kind != "register" || !c.Done || c.Err != nil || c.StartStep > rtp.ExecStep || cc.actor.Internal {
				continue
			}
			if c.Status == 200 {
				accepted++
			} else {
				refusedBefore++
			}
		}
		if refusedBefore > 0 {
			r.Probe("refused-register-before-runtime-start")
		}
		r.Check(accepted >= len(exts), "C13.barrier-moved", "the runtime was started at step %d after %d accepted external registrations (%d refused ones), %d external extensions were launched", rtp.ExecStep, accepted, refusedBefore, len(exts))
	}
	// (b) the first invocation is delivered only once every extension registered by then has an accepted
	// next on record; refused polls (missing / invalid / unknown identifier) do not count
	if firstDelivery < 1<<30 {
		refusedPolls := 0
		for _, cc := range calls {
			if cc.kind == "next" && cc.idKind != "" && cc.c.Done && cc.c.StartStep <= firstDelivery {
				refusedPolls++
			}
		}
		for _, cc := range calls {
			c := cc.c
			if cc.kind != "register" || !c.Done || c.Err != nil || c.Status != 200 || c.EndStep >= firstDelivery {
				continue
			}
			id := c.Hdr.Get("Lambda-Extension-Identifier")
			polled, gone := false, false
			for _, o := range calls {
				if o.c.ReqHdr["Lambda-Extension-Identifier"] != id || o.c.StartStep > firstDelivery {
					continue
				}
				// accepted = it parked (a refused poll is answered in the step it was issued in)
				if o.kind == "next" && o.idKind == "" && (!o.c.Done || o.c.Err != nil || o.c.Status == 200 || o.c.EndStep > o.c.StartStep) {
					polled = true
				}
				if (o.kind == "initerror" || o.kind == "exiterror") && o.c.Done && o.c.Status == 202 {
					gone = true
				}
			}
			if !cc.actor.P.Alive && cc.actor.P.DeathStep <= firstDelivery {
				gone = true
			}
			if refusedPolls > 0 {
				r.Probe("refused-poll-before-first-delivery")
			}
			r.Check(polled || gone, "C13.barrier-moved", "the first invocation was delivered at step %d although %s (registered at step %d) had no accepted next on record (%d refused polls before)", firstDelivery, cc.actor.Who, c.EndStep, refusedPolls)
		}
	}

}
