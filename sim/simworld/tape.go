package simworld

import (
	"fmt"
	"math/rand"
	"os"
)

// tapeFile, when set (VERIF_TAPE_FILE), receives every value before it is used, so the tape of a run that
// kills the process can be recovered.
var tapeFile *os.File

func init() {
	if p := os.Getenv("VERIF_TAPE_FILE"); p != "" {
		tapeFile, _ = os.OpenFile(p, os.O_WRONLY|os.O_APPEND|os.O_CREATE, 0o644)
	}
}

// resetTapeFile empties the recorder file.
func resetTapeFile() {
	if tapeFile != nil {
		tapeFile.Truncate(0)
		tapeFile.Seek(0, 0)
	}
}

// Tape is the single source of every decision of a simulated run. In
// generation mode it draws from a PRNG seeded by the run seed and records what
// it drew; in replay mode it feeds the recorded list and, after its end,
// answers 0 - the benign default - for ever.
type Tape struct {
	rng     *rand.Rand
	replay  map[int]int // sparse: position -> value
	isRep   bool
	Pos     int
	Rec     []int
	NonZero int
}

func NewTape(seed int64) *Tape {
	return &Tape{rng: rand.New(rand.NewSource(seed))}
}

func ReplayTape(sparse map[int]int) *Tape {
	return &Tape{replay: sparse, isRep: true}
}

func (t *Tape) Replaying() bool { return t.isRep }

func (t *Tape) put(v int) int {
	if tapeFile != nil {
		fmt.Fprintf(tapeFile, "%d ", v)
	}
	t.Rec = append(t.Rec, v)
	t.Pos++
	if v != 0 {
		t.NonZero++
	}
	return v
}

// Draw returns a value in [0,n); 0 is the benign default.
func (t *Tape) Draw(n int) int {
	if n <= 1 {
		return t.put(0)
	}
	if t.isRep {
		v := t.replay[t.Pos]
		if v < 0 {
			v = -v
		}
		return t.put(v % n)
	}
	return t.put(t.rng.Intn(n))
}

// Biased returns 0 with probability 1-num/den, otherwise uniformly 1..n-1.
func (t *Tape) Biased(n int, num, den int) int {
	if n <= 1 || num <= 0 {
		return t.put(0) // natural policy: also when replaying
	}
	if t.isRep {
		v := t.replay[t.Pos]
		if v < 0 {
			v = -v
		}
		return t.put(v % n)
	}
	if t.rng.Intn(den) >= num {
		return t.put(0)
	}
	return t.put(1 + t.rng.Intn(n-1))
}

// Chance is true with probability num/den; false is the default.
func (t *Tape) Chance(num, den int) bool {
	return t.Biased(2, num, den) == 1
}

// Weighted picks index i with probability w[i]/sum; index 0 is the default.
func (t *Tape) Weighted(w ...int) int {
	if t.isRep {
		return t.Draw(len(w))
	}
	sum := 0
	for _, x := range w {
		sum += x
	}
	if sum <= 0 {
		return t.put(0)
	}
	r := t.rng.Intn(sum)
	for i, x := range w {
		if r < x {
			return t.put(i)
		}
		r -= x
	}
	return t.put(0)
}

// Range draws an integer in [lo,hi]; lo is the default.
func (t *Tape) Range(lo, hi int) int {
	if hi <= lo {
		t.put(0)
		return lo
	}
	return lo + t.Draw(hi-lo+1)
}

// Sparse returns the recorded list as position->value for non-zero entries.
func (t *Tape) Sparse() map[int]int {
	m := map[int]int{}
	for i, v := range t.Rec {
		if v != 0 {
			m[i] = v
		}
	}
	return m
}
