package simworld

import (
	"bytes"
	"context"
	"fmt"
	"sort"
	"strings"
	"sync/atomic"
	"time"

	"go.amzn.com/lambda/supervisor"
	"go.amzn.com/lambda/supervisor/model"
	"go.amzn.com/verifsim/simkernel"
)

// C19: local supervisor - one truthful exit event per process, kill means gone. The real LocalSupervisor runs
// over the simulated kernel (simkernel): every system call is a scheduling point, what processes do is decided
// by the scenario on the fake clock.
func init() {
	Scenarios["C19"] = scenC19
}

type c19Plan struct {
	name         string
	startFail    bool
	life         time.Duration // <0: runs until signalled
	end          simkernel.WaitStatus
	onTerm       string // default | trap | ignore
	trapDelay    time.Duration
	trapCode     int
	killLatency  time.Duration
	kids         []c19Kid
	proc         *simkernel.Proc
	kidProcs     []*simkernel.Proc
	execDone     bool
	execDoneTick int64
	spawnErr     error
	execErr      error
	execStarted  bool
}

type c19Kid struct {
	owner       *c19Plan
	holdsPipe   bool
	ignoresTerm bool
	killLatency time.Duration
	life        time.Duration
}

type c19Event struct {
	at   time.Duration
	seq  int
	what string
	fn   func()
}

type c19Call struct {
	kind      string // kill | terminate | stop | exec
	name      string
	deadline  time.Duration // absolute fake time (kill, stop)
	startAt   time.Duration
	startStep int
	startSeq  int // kernel sequence number when issued
	startTick int64
	endSeq    int
	done      bool
	err       error
	endAt     time.Duration
	endStep   int
	judged    bool
	logged    bool
}

// c19Tick orders call starts (driver side) against Exec returns (supervisor side).
var c19Tick atomic.Int64

type c19Got struct {
	name   string
	domain string
	exit   *int32
	signo  *int32
	at     time.Duration
}

func scenC19(r *Run, job *Job) {
	t := r.T
	k := simkernel.New()
	simkernel.K = k
	k.Logf = r.Logf
	k.Clock = func() int64 { return int64(r.Now()) }
	k.Step = func() int { return r.Step }
	switch t.Draw(3) {
	case 1:
		r.ReorderNum, r.ReorderDen = 1, 3
	case 2:
		r.ReorderNum, r.ReorderDen = 2, 3
	}
	smallPids := t.Chance(1, 4)
	if smallPids {
		// a nearly exhausted pid space: pids are reused as soon as they are free
		k.PidMin, k.PidMax = 100, 100+2+t.Draw(4)
	}
	if t.Chance(1, 2) {
		// a supervisor goroutine is descheduled right before a system call (or a lock) for a few steps
		site := []string{"simkernel.(*Kernel).Getpgid", "simkernel.(*Kernel).Kill", "simkernel.(*Kernel).Wait", "simkernel.(*Kernel).Spawn", "LocalSupervisor).Kill", "LocalSupervisor).Terminate", "LocalSupervisor).Exec"}[t.Draw(7)]
		r.AddHold(site, 1+t.Draw(4), 1+t.Draw(3))
	}
	r.MaxHoldTime = 7333700 * time.Nanosecond // an instant no deadline or process event falls on
	sv := supervisor.NewLocalSupervisor()
	ctx := context.Background()
	nProcs := 1 + t.Draw(5)
	depth := 6 + t.Draw(20)
	burst := t.Chance(1, 10)
	if burst {
		// many processes end within a moment while the consumer of the events channel is busy
		k.PidMin, k.PidMax = 100, 32767
		smallPids = false
		nProcs = 12 + t.Draw(14)
		depth = 3*nProcs + t.Draw(10)
	}
	r.Desc = fmt.Sprintf("C19 procs=%d depth=%d burst=%v reorder=%d/%d smallpids=%v holds=%d", nProcs, depth, burst, r.ReorderNum, r.ReorderDen, smallPids, len(r.Holds))
	r.Logf("%s", r.Desc)

	var queue []*c19Event
	qseq := 0
	at := func(d time.Duration, what string, fn func()) {
		qseq++
		queue = append(queue, &c19Event{at: r.Now() + d, seq: qseq, what: what, fn: fn})
	}
	plans := map[string]*c19Plan{} // by path
	var order []*c19Plan
	lat := func() time.Duration {
		return []time.Duration{0, 0, time.Millisecond, 50 * time.Millisecond, 999 * time.Millisecond, time.Second, 1001 * time.Millisecond, 8 * time.Second}[t.Draw(8)]
	}
	drawPlan := func(i int) *c19Plan {
		p := &c19Plan{name: fmt.Sprintf("proc-%d", i), life: -1, onTerm: "default"}
		switch t.Weighted(3, 3, 2, 2, 1) {
		case 0:
		case 1:
			p.life, p.end = []time.Duration{0, time.Millisecond, 100 * time.Millisecond, 2 * time.Second}[t.Draw(4)], simkernel.Exited(0)
		case 2:
			p.life, p.end = []time.Duration{0, time.Millisecond, 100 * time.Millisecond, 2 * time.Second}[t.Draw(4)], simkernel.Exited([]int{1, 2, 127, 255}[t.Draw(4)])
		case 3:
			p.life, p.end = []time.Duration{0, time.Millisecond, 100 * time.Millisecond, 2 * time.Second}[t.Draw(4)], simkernel.Signaled([]simkernel.Signal{simkernel.SIGSEGV, simkernel.SIGABRT, simkernel.SIGKILL, simkernel.SIGTERM}[t.Draw(4)])
		case 4:
			p.startFail = true
		}
		switch t.Draw(4) {
		case 1:
			p.onTerm, p.trapDelay, p.trapCode = "trap", []time.Duration{0, 10 * time.Millisecond, time.Second}[t.Draw(3)], []int{0, 3, 143}[t.Draw(3)]
		case 2:
			p.onTerm = "ignore"
		}
		p.killLatency = lat()
		if burst && !p.startFail && t.Chance(3, 4) {
			p.life, p.end = []time.Duration{0, time.Millisecond, 2 * time.Millisecond}[t.Draw(3)], simkernel.Exited(t.Draw(3))
		}
		for n := t.Weighted(5, 2, 1); n > 0 && !burst; n-- {
			p.kids = append(p.kids, c19Kid{holdsPipe: t.Chance(3, 4), ignoresTerm: t.Chance(1, 2), killLatency: lat(), life: []time.Duration{-1, -1, 50 * time.Millisecond}[t.Draw(3)]})
		}
		return p
	}
	path := func(p *c19Plan) string { return "/sim/bin/" + p.name }
	k.OnSpawn = func(kp *simkernel.Proc) error {
		p := plans[kp.Path]
		if p == nil {
			r.Troublef("spawn of unplanned %s", kp.Path)
		}
		if p.startFail {
			r.Fault("exec-fails")
			return simkernel.ENOENT
		}
		p.proc = kp
		kp.Data = p
		if p.life >= 0 {
			st := p.end
			at(p.life, fmt.Sprintf("%s ends on its own: %v", p.name, st), func() { k.Die(kp, st) })
		}
		for i, kid := range p.kids {
			c, err := k.Fork(kp, fmt.Sprintf("%s/child-%d", kp.Path, i+1), kid.holdsPipe)
			if err != nil {
				continue // the fork failed for want of pids: a process with fewer children
			}
			kid := kid
			kid.owner = p
			c.Data = &kid
			p.kidProcs = append(p.kidProcs, c)
			if kid.life >= 0 {
				at(kid.life, fmt.Sprintf("%s ends on its own", c.Path), func() { k.Die(c, simkernel.Exited(0)) })
			}
		}
		return nil
	}
	k.OnSignal = func(kp *simkernel.Proc, sig simkernel.Signal) {
		switch d := kp.Data.(type) {
		case *c19Plan:
			switch {
			case sig == simkernel.SIGKILL:
				at(d.killLatency, fmt.Sprintf("%s dies of SIGKILL", d.name), func() { k.Die(kp, simkernel.Signaled(simkernel.SIGKILL)) })
			case sig == simkernel.SIGTERM && d.onTerm == "default":
				at(0, fmt.Sprintf("%s dies of SIGTERM", d.name), func() { k.Die(kp, simkernel.Signaled(simkernel.SIGTERM)) })
			case sig == simkernel.SIGTERM && d.onTerm == "trap":
				code := d.trapCode
				at(d.trapDelay, fmt.Sprintf("%s handles SIGTERM and exits %d", d.name, code), func() { k.Die(kp, simkernel.Exited(code)) })
			}
		case *c19Kid:
			switch {
			case sig == simkernel.SIGKILL:
				at(d.killLatency, fmt.Sprintf("%s dies of SIGKILL", kp.Path), func() { k.Die(kp, simkernel.Signaled(simkernel.SIGKILL)) })
			case sig == simkernel.SIGTERM && !d.ignoresTerm:
				at(0, fmt.Sprintf("%s dies of SIGTERM", kp.Path), func() { k.Die(kp, simkernel.Signaled(simkernel.SIGTERM)) })
			}
		}
	}
	// ---- the consumer of the events channel ---------------------------------------------------------------
	var got []c19Got
	evCh, _ := sv.Events(ctx, &model.EventsRequest{Domain: "runtime"})
	consumerStall := []time.Duration{0, 0, 0, 30 * time.Millisecond, 3 * time.Second}[t.Draw(5)]
	if burst {
		consumerStall = []time.Duration{3 * time.Second, 10 * time.Second}[t.Draw(2)]
	}
	r.Go(func() {
		for ev := range evCh {
			g := c19Got{at: r.Now(), exit: ev.Event.ExitStatus, signo: ev.Event.Signo}
			if ev.Event.Name != nil {
				g.name = *ev.Event.Name
			}
			if ev.Event.Domain != nil {
				g.domain = *ev.Event.Domain
			}
			got = append(got, g)
			if consumerStall > 0 && len(got)%2 == 1 {
				time.Sleep(consumerStall) // a slow reader: the supervisor's event senders wait
			}
		}
	})
	// ---- operations ---------------------------------------------------------------------------------------
	var calls []*c19Call
	issue := func(c *c19Call, f func() error) {
		c.startAt, c.startStep, c.startSeq, c.startTick = r.Now(), r.Step, k.Seq, c19Tick.Add(1)
		calls = append(calls, c)
		r.Logf("op %s %s deadline=%v", c.kind, c.name, c.deadline)
		r.Go(func() {
			err := f()
			c.err, c.done, c.endAt, c.endStep, c.endSeq = err, true, r.Now(), r.Step, k.Seq
		})
	}
	known := func(name string) *c19Plan {
		for _, p := range order {
			if p.name == name {
				return p
			}
		}
		return nil
	}
	runDue := func() bool {
		// the earliest due kernel event, if any
		best := -1
		for i, e := range queue {
			if e.at <= r.Now() && (best < 0 || e.at < queue[best].at || e.at == queue[best].at && e.seq < queue[best].seq) {
				best = i
			}
		}
		if best < 0 {
			return false
		}
		e := queue[best]
		queue = append(queue[:best], queue[best+1:]...)
		r.NextStep()
		r.Logf("kernel event: %s", e.what)
		e.fn()
		r.Settle()
		return true
	}
	nextEventIn := func() time.Duration {
		d := time.Duration(-1)
		for _, e := range queue {
			if x := e.at - r.Now(); d < 0 || x < d {
				d = x
			}
		}
		return d
	}
	loggedEvents := 0
	judge := func() {
		// what the supervisor's goroutines produced since the last quiescent point, in a canonical order
		for _, c := range calls {
			if c.done && !c.logged {
				c.logged = true
				r.Logf("op %s %s returned %v", c.kind, c.name, c.err)
			}
		}
		var lines []string
		for _, g := range got[loggedEvents:] {
			lines = append(lines, fmt.Sprintf("event: %s exit=%v signo=%v", g.name, deref(g.exit), deref(g.signo)))
		}
		loggedEvents = len(got)
		sort.Strings(lines)
		for _, l := range lines {
			r.Logf("%s", l)
		}
		c19JudgeCalls(r, k, calls, known)
	}
	pass := func(d time.Duration) {
		if d > 0 {
			// a descheduled supervisor goroutine resumes before the clock moves on: Go's select chooses at random
			// among cases that are ready together (process gone AND deadline passed), which would not replay
			r.ReleaseHolds()
			r.Settle()
			judge()
		}
		end := r.Now() + d
		for {
			for runDue() {
				judge()
			}
			rem := end - r.Now()
			if rem <= 0 {
				break
			}
			if n := nextEventIn(); n >= 0 && n < rem {
				rem = n
			}
			r.SleepUntil(rem, nil)
			judge()
		}
	}
	for i := 0; i < depth; i++ {
		r.NextStep()
		wExec := 5
		if burst {
			wExec = 30
		}
		switch t.Weighted(wExec, 3, 4, 1, 1, 5) {
		case 0: // exec
			if len(order) >= nProcs {
				continue
			}
			p := drawPlan(len(order) + 1)
			plans[path(p)] = p
			order = append(order, p)
			cwd := "/var/task"
			env := map[string]string{"A": "1", "NAME": p.name}
			req := &model.ExecRequest{Domain: "runtime", Name: p.name, Path: path(p), Args: []string{"--flag", p.name}, Cwd: &cwd, Env: &env}
			if t.Chance(2, 3) {
				// output goes to a log writer, i.e. through a pipe every descendant inherits (as in the emulator)
				req.StdoutWriter, req.StderrWriter = &bytes.Buffer{}, &bytes.Buffer{}
			}
			c := &c19Call{kind: "exec", name: p.name}
			p.execStarted = true
			issue(c, func() error {
				err := sv.Exec(ctx, req)
				p.execErr, p.execDone, p.execDoneTick = err, true, c19Tick.Add(1)
				return err
			})
		case 1: // terminate
			if len(order) == 0 {
				continue
			}
			p := order[t.Draw(len(order))]
			c := &c19Call{kind: "terminate", name: p.name}
			issue(c, func() error { return sv.Terminate(ctx, &model.TerminateRequest{Domain: "runtime", Name: p.name}) })
		case 2: // kill
			if len(order) == 0 {
				continue
			}
			p := order[t.Draw(len(order))]
			dl := []time.Duration{-time.Second, -time.Nanosecond, 0, time.Millisecond, 50 * time.Millisecond, time.Second, time.Second, 5 * time.Second, 20 * time.Second}[t.Draw(9)]
			if dl == 0 && len(r.Holds) > 0 {
				dl = time.Millisecond // (same reason: an expired deadline and a death during the hold would be ready together)
			}
			c := &c19Call{kind: "kill", name: p.name, deadline: r.Now() + dl}
			deadline := time.Now().Add(dl)
			issue(c, func() error {
				return sv.Kill(ctx, &model.KillRequest{Domain: "runtime", Name: p.name, Deadline: deadline})
			})
		case 3: // unknown names
			name := []string{"nobody", "proc-99", ""}[t.Draw(3)]
			if t.Chance(1, 2) {
				c := &c19Call{kind: "kill", name: name, deadline: r.Now() + time.Second}
				deadline := time.Now().Add(time.Second)
				issue(c, func() error {
					return sv.Kill(ctx, &model.KillRequest{Domain: "runtime", Name: name, Deadline: deadline})
				})
			} else {
				c := &c19Call{kind: "terminate", name: name}
				issue(c, func() error { return sv.Terminate(ctx, &model.TerminateRequest{Domain: "runtime", Name: name}) })
			}
		case 4: // another domain: a no-op
			c := &c19Call{kind: "noop", name: "other-domain"}
			which := t.Draw(3)
			issue(c, func() error {
				switch which {
				case 0:
					return sv.Exec(ctx, &model.ExecRequest{Domain: "other", Name: "x", Path: "/sim/bin/x"})
				case 1:
					return sv.Kill(ctx, &model.KillRequest{Domain: "other", Name: "proc-1", Deadline: time.Now().Add(time.Second)})
				}
				return sv.Terminate(ctx, &model.TerminateRequest{Domain: "other", Name: "proc-1"})
			})
		case 5: // time passes
			r.Settle()
			judge()
			pass([]time.Duration{0, time.Millisecond, 50 * time.Millisecond, time.Second, 3 * time.Second}[t.Draw(5)])
			continue
		}
		r.Settle()
		judge()
		if t.Chance(1, 2) {
			pass(0) // the consequences that are due now happen before the next operation
		}
	}
	// ---- wind down: everything still running is killed, all events are collected ---------------------------
	r.ReleaseHolds()
	r.Settle()
	judge()
	for _, p := range order {
		if p.proc != nil && p.proc.State == simkernel.Running {
			r.NextStep()
			p := p
			c := &c19Call{kind: "kill", name: p.name, deadline: r.Now() + 30*time.Second}
			deadline := time.Now().Add(30 * time.Second)
			issue(c, func() error {
				return sv.Kill(ctx, &model.KillRequest{Domain: "runtime", Name: p.name, Deadline: deadline})
			})
			r.Settle()
		}
	}
	pass(45 * time.Second)
	// orphans that outlived their leader (and may hold its output pipe) are ended by the driver
	for _, q := range k.All {
		if q.State == simkernel.Running {
			r.NextStep()
			r.Logf("kernel event: the orphan %v is removed", q)
			k.Die(q, simkernel.Signaled(simkernel.SIGKILL))
			r.Settle()
			judge()
		}
	}
	pass(time.Second)
	// a slow consumer is given the time it needs to collect what the supervisor has to deliver
	for waited := time.Duration(0); waited < time.Duration(nProcs+1)*consumerStall; waited += 5 * time.Second {
		started := 0
		for _, p := range order {
			if p.proc != nil {
				started++
			}
		}
		if len(got) >= started {
			break
		}
		pass(5 * time.Second)
	}
	r.DisableHolds()
	r.Settle()
	judge()
	c19Final(r, k, order, calls, got)
}

func deref(p *int32) interface{} {
	if p == nil {
		return nil
	}
	return *p
}

// c19JudgeCalls judges, at a quiescent point, every call that has returned and has not been judged, and the
// calls that should have returned by now.
func c19JudgeCalls(r *Run, k *simkernel.Kernel, calls []*c19Call, known func(string) *c19Plan) {
	for _, c := range calls {
		if c.judged {
			continue
		}
		p := known(c.name)
		started := p != nil && p.proc != nil
		switch c.kind {
		case "noop":
			if c.done {
				c.judged = true
				r.Check(c.err == nil, "C19.other-domain", "a request for another domain returned %v", c.err)
			}
		case "exec":
			if !c.done {
				if !r.HeldNow() {
					r.Failf("C19.exec-blocks", "Exec of %s has not returned", c.name)
				}
				continue
			}
			c.judged = true
			if p.startFail {
				r.Check(c.err != nil && p.proc == nil, "C19.exec-verdict", "Exec of %s succeeded although the start failed", c.name)
				continue
			}
			if p.proc == nil && c.err == simkernel.EAGAIN {
				r.Probe("out-of-pids")
				continue // the kernel had no pid left: the start failed and Exec says so
			}
			r.Check(c.err == nil && p.proc != nil, "C19.exec-verdict", "Exec of %s returned %v (process: %v)", c.name, c.err, p.proc)
			kp := p.proc
			env := append([]string{}, kp.Env...)
			sort.Strings(env)
			ok := kp.Path == "/sim/bin/"+c.name && strings.Join(kp.Args, " ") == kp.Path+" --flag "+c.name && strings.Join(env, " ") == "A=1 NAME="+c.name && kp.Dir == "/var/task" && kp.Setpgid && kp.Pgid == kp.Pid
			r.Check(ok, "C19.exec-faithful", "Exec of %s started %v args=%v env=%v dir=%q setpgid=%v", c.name, kp, kp.Args, kp.Env, kp.Dir, kp.Setpgid)
			r.NonTriv = true
		case "terminate":
			if !c.done {
				if !r.HeldNow() {
					r.Failf("C19.terminate-waits", "Terminate of %s has not returned although nothing holds it", c.name)
				}
				continue
			}
			c.judged = true
			if c.endAt-c.startAt > r.MaxHoldTime {
				r.Failf("C19.terminate-waits", "Terminate of %s took %v", c.name, c.endAt-c.startAt)
			}
			if p == nil {
				r.Check(c.err != nil, "C19.unknown-name", "Terminate of the unknown name %q returned success", c.name)
				continue
			}
			if !p.execDone {
				continue // racing with the Exec of that name: either verdict
			}
			if !started {
				r.Check(c.err != nil, "C19.unknown-name", "Terminate of %s, whose start failed, returned success", c.name)
				continue
			}
			if p.execDoneTick != 0 && p.execDoneTick < c.startTick {
				r.Check(c.err == nil, "C19.terminate-verdict", "Terminate of the started process %s returned %v", c.name, c.err)
			}
			r.NonTriv = true
		case "kill":
			reaped := started && p.proc.WaitDoneSeq > 0 // the supervisor's Wait on it has returned
			if !c.done {
				if r.HeldNow() {
					continue
				}
				// must have returned once the process is gone, and at the latest at the deadline
				if reaped {
					r.Failf("C19.kill-hangs", "Kill of %s has not returned although the process was reaped (status %v)", c.name, p.proc.Status)
				}
				if r.Now() > c.deadline && r.Now() > c.startAt {
					r.Failf("C19.kill-hangs", "Kill of %s has not returned %v after its deadline", c.name, r.Now()-c.deadline)
				}
				continue
			}
			c.judged = true
			if p == nil {
				r.Check(c.err != nil, "C19.unknown-name", "Kill of the unknown name %q returned success", c.name)
				continue
			}
			if !started {
				if p.execDone {
					r.Check(c.err != nil, "C19.unknown-name", "Kill of %s, whose start failed, returned success", c.name)
				}
				continue
			}
			r.NonTriv = true
			if c.err == nil {
				r.Probe("kill-ok")
				r.Check(reaped, "C19.kill-returned-early", "Kill of %s returned success at %v while %v has not terminated (state %d)", c.name, c.endAt, p.proc, p.proc.State)
				continue
			}
			r.Probe("kill-error")
			if p.execDoneTick == 0 || p.execDoneTick > c.startTick {
				continue // issued before the Exec of that name had returned: either verdict
			}
			// an error is legitimate only if the process had not terminated before the call and was still there at
			// the deadline (which includes a deadline that was already in the past)
			kp := p.proc
			if kp.WaitDoneSeq > 0 && kp.WaitDoneSeq <= c.startSeq && time.Duration(kp.WaitDoneAt) <= c.startAt && c19Before(kp, c) {
				r.Failf("C19.kill-false-error", "Kill of %s, which had terminated (%v) before the call, returned %v", c.name, kp.Status, c.err)
			}
			if kp.WaitDoneSeq > 0 && time.Duration(kp.WaitDoneAt) < c.deadline {
				r.Failf("C19.kill-false-error", "Kill of %s returned %v although the process had terminated and been waited for at %v (died at %v), before the deadline %v", c.name, c.err, time.Duration(kp.WaitDoneAt), time.Duration(kp.DiedAt), c.deadline)
			}
			if c.deadline > c.startAt && c.endAt < c.deadline {
				r.Failf("C19.kill-false-error", "Kill of %s gave up at %v, before its deadline %v: %v", c.name, c.endAt, c.deadline, c.err)
			}
		}
	}
}

// c19Before: the Wait on the process returned in an earlier external step than the one the call was issued in
// (within one step the supervisor's goroutines are concurrent).
func c19Before(kp *simkernel.Proc, c *c19Call) bool { return kp.WaitDoneStep < c.startStep }

func c19Final(r *Run, k *simkernel.Kernel, order []*c19Plan, calls []*c19Call, got []c19Got) {
	// 1. exactly one truthful event per started process
	byName := map[string][]c19Got{}
	var names []string
	for _, g := range got {
		if _, ok := byName[g.name]; !ok {
			names = append(names, g.name)
		}
		byName[g.name] = append(byName[g.name], g)
		r.Check(g.domain == "runtime", "C19.event-domain", "event for %q carries domain %q", g.name, g.domain)
	}
	planned := map[string]bool{}
	for _, p := range order {
		planned[p.name] = true
		evs := byName[p.name]
		if p.proc == nil {
			r.Check(len(evs) == 0, "C19.event-for-nothing", "%d termination event(s) for %s, which was never started", len(evs), p.name)
			continue
		}
		if p.proc.State == simkernel.Running {
			r.Troublef("%s is still running at the end of the run", p.name)
		}
		r.Check(len(evs) >= 1, "C19.event-missing", "no termination event for %s (died: %v)", p.name, p.proc.Status)
		r.Check(len(evs) == 1, "C19.event-duplicate", "%d termination events for %s", len(evs), p.name)
		g := evs[0]
		st := p.proc.Status
		if st.Exited() {
			r.Check(g.exit != nil && g.signo == nil && int(*g.exit) == st.ExitStatus(), "C19.event-untruthful", "%s really ended with %v, the event says exit=%v signo=%v", p.name, st, deref(g.exit), deref(g.signo))
		} else {
			r.Check(g.signo != nil && g.exit == nil && int(*g.signo) == int(st.Signal()), "C19.event-untruthful", "%s really ended with %v, the event says exit=%v signo=%v", p.name, st, deref(g.exit), deref(g.signo))
		}
		r.Check(time.Duration(p.proc.DiedAt) <= g.at, "C19.event-premature", "the termination event for %s was delivered at %v, the process died at %v", p.name, g.at, time.Duration(p.proc.DiedAt))
		r.NonTriv = true
	}
	for _, name := range names {
		r.Check(planned[name], "C19.event-for-nothing", "termination event for %q, which was never started", name)
	}
	// 2. every signal a process received is explained by a request for its name issued before
	for _, kp := range k.All {
		var pl *c19Plan
		switch d := kp.Data.(type) {
		case *c19Plan:
			pl = d
		case *c19Kid:
			pl = d.owner
		}
		if pl == nil {
			continue
		}
		for _, s := range kp.Sigs {
			explained := false
			for _, c := range calls {
				if c.name != pl.name || c.startSeq >= s.Seq {
					continue
				}
				if s.Sig == simkernel.SIGTERM && c.kind == "terminate" || s.Sig == simkernel.SIGKILL && c.kind == "kill" {
					explained = true
				}
			}
			if !explained {
				// classification for the known-findings file: who sent it? A request for another name whose process had
				// been reaped by the kernel (pid free again) although the supervisor's Wait on it had not returned when the
				// request was made, or that was reaped only after the request was made: the pid-reuse window every
				// signal-by-pid interface has. (A request for a process whose Wait had returned before - in an earlier step
				// of the run; within one step the two are concurrent - is the defect F19 repaired and not in this class.)
				for _, c := range calls {
					if c.startSeq >= s.Seq || c.endSeq < s.Seq || !(s.Sig == simkernel.SIGTERM && c.kind == "terminate" || s.Sig == simkernel.SIGKILL && c.kind == "kill") {
						continue
					}
					for _, other := range order {
						if other.name == c.name && other.proc != nil && other.proc.ReapedSeq > 0 && other.proc.ReapedSeq < s.Seq &&
							(other.proc.WaitDoneSeq == 0 || other.proc.WaitDoneSeq > c.startSeq || !c19Before(other.proc, c)) {
							r.Known = fmt.Sprintf("pid-reuse-toctou@%s(%s)", c.kind, c.name)
						}
					}
				}
			}
			r.Check(explained, "C19.stray-signal", "%v received signal %d (kill argument %d) although no request for %s had asked for it", kp, int(s.Sig), s.Target, pl.name)
		}
	}
	// 3. a signal that reached a running leader reached every running member of its group
	for _, p := range order {
		if p.proc == nil {
			continue
		}
		for _, s := range p.proc.Sigs {
			if !s.Live {
				continue
			}
			for _, c := range p.kidProcs {
				if c.BornSeq < s.Seq && (c.DiedSeq == 0 || c.DiedSeq > s.Seq) {
					has := false
					for _, cs := range c.Sigs {
						if cs.Seq == s.Seq && cs.Sig == s.Sig {
							has = true
						}
					}
					r.Check(has, "C19.group-not-signalled", "signal %d reached %v but not its running group member %v", int(s.Sig), p.proc, c)
					r.Probe("group-signalled")
				}
			}
		}
	}
	// 4. a successful Terminate / Kill of a process that was running throughout the call did deliver its signal
	for _, c := range calls {
		var p *c19Plan
		for _, x := range order {
			if x.name == c.name {
				p = x
			}
		}
		if p == nil || p.proc == nil || !c.done || c.err != nil || c.kind != "terminate" && c.kind != "kill" {
			continue
		}
		want := simkernel.SIGTERM
		if c.kind == "kill" {
			want = simkernel.SIGKILL
		}
		kp := p.proc
		if kp.BornSeq <= c.startSeq && (kp.DiedSeq == 0 || kp.DiedSeq > c.endSeq) {
			has := false
			for _, s := range kp.Sigs {
				if s.Sig == want && s.Seq > c.startSeq && s.Seq <= c.endSeq {
					has = true
				}
			}
			r.Check(has, "C19.signal-not-delivered", "%s of %s returned success while the process was running, but no signal %d reached it during the call", c.kind, c.name, int(want))
			r.Probe("signal-delivered")
		}
	}
}
