package simworld

import (
	"bufio"
	"encoding/json"
	"fmt"
	"io"
	stdlog "log"
	"os"
	"os/signal"
	"runtime"
	"runtime/debug"
	"sort"
	"strings"
	"syscall"
	"testing"
	"testing/synctest"
	"time"

	"go.amzn.com/verifsim/simsync"
)

// Job is one simulated run requested by the runner.
type Job struct {
	ID      int            `json:"id"`
	Prop    string         `json:"prop"`
	Profile string         `json:"profile,omitempty"`
	Seed    int64          `json:"seed"`
	Replay  map[string]int `json:"replay,omitempty"` // sparse tape (position -> value); presence => replay mode
	IsRep   bool           `json:"is_replay,omitempty"`
	WantLog bool           `json:"want_log,omitempty"`
	Tier    string         `json:"tier,omitempty"`
	Knobs   map[string]int `json:"knobs,omitempty"`
	// RaceFiles (race pass only): a data race counts when both accesses lie in one of these files
	RaceFiles []string `json:"race_files,omitempty"`
}

// Result is what a worker reports for a job.
type Result struct {
	ID      int            `json:"id"`
	Prop    string         `json:"prop"`
	Profile string         `json:"profile,omitempty"`
	Seed    int64          `json:"seed"`
	Hash    string         `json:"hash"`
	Canon   string         `json:"canon"`
	Viol    *Violation     `json:"viol,omitempty"`
	Trouble string         `json:"trouble,omitempty"`
	Known   string         `json:"known,omitempty"` // signature of a known finding that was hit (scenario-classified)
	Stats   Stats          `json:"stats"`
	Tape    map[string]int `json:"tape"`
	TapeLen int            `json:"tape_len"`
	Log     []string       `json:"log,omitempty"`
	NonTriv bool           `json:"nontriv"`
	States  []string       `json:"states,omitempty"`
	Trans   []string       `json:"trans,omitempty"`
	Shape   string         `json:"shape,omitempty"`
	WallUs  int64          `json:"wall_us"`
	MemMB   int            `json:"mem_mb"` // memory obtained from the OS by this worker process after the run
	SigHits map[string]int `json:"sig_hits,omitempty"`
	PUHits  map[string]int `json:"pu_hits,omitempty"`
	Desc    string         `json:"desc,omitempty"` // one-line description of the generated case
}

// Scenario runs one property scenario on a run.
type Scenario func(r *Run, job *Job)

// needsInventory lists the properties whose scenarios draw hold targets from the lock-site inventory.
var needsInventory = map[string]bool{"C07": true, "C08": true, "C15": true}

// Scenarios is the registry: property id (or "id/profile") -> scenario.
var Scenarios = map[string]Scenario{}

// Execute runs one job inside a fresh synctest bubble.
func Execute(t *testing.T, job *Job) (res Result) {
	start := time.Now()
	res = Result{ID: job.ID, Prop: job.Prop, Profile: job.Profile, Seed: job.Seed}
	var tape *Tape
	if job.IsRep {
		sp := map[int]int{}
		for k, v := range job.Replay {
			var i int
			fmt.Sscanf(k, "%d", &i)
			sp[i] = v
		}
		tape = ReplayTape(sp)
	} else {
		tape = NewTape(job.Seed)
	}
	mkTape := func() *Tape {
		if job.IsRep {
			sp := map[int]int{}
			for k, v := range job.Replay {
				var i int
				fmt.Sscanf(k, "%d", &i)
				sp[i] = v
			}
			return ReplayTape(sp)
		}
		return NewTape(job.Seed)
	}
	r := newRun(tape)
	r.Pass = 1
	if job.Prop != "INVENTORY" && needsInventory[job.Prop] {
		r.Sites = Inventory(t)
		// the inventory run drew from its own tape: what the recorder file holds from here on is this job's tape only
		resetTapeFile()
		if job.Knobs["uyield"] != 0 {
			r.SitesPU = InventoryPU(t)
			resetTapeFile()
		}
		if k := job.Knobs["holdsite"]; k > 0 && k <= len(r.Sites) {
			r.ForceSite = r.Sites[k-1]
		}
	}
	scen, ok := Scenarios[job.Prop+"/"+job.Profile]
	if !ok {
		scen, ok = Scenarios[job.Prop]
	}
	if !ok {
		res.Trouble = "unknown scenario " + job.Prop + "/" + job.Profile
		return res
	}
	bubble := func(r *Run) {
		// in its own goroutine: when the race detector (race pass) has reported anything during the bubble, package
		// testing fails the bubble's test and synctest.Test ends the calling goroutine with FailNow
		done := make(chan struct{})
		go func() {
			defer close(done)
			bubbleBody(t, r, scen, job)
		}()
		<-done
	}
	bubble(r)
	if r.WantSecond && r.Viol == nil && r.Trouble == nil {
		// differential scenario: second bubble with an identically generated tape
		first := r
		r2 := newRun(mkTape())
		r2.Pass, r2.Other, r2.Sites = 2, first, first.Sites
		bubble(r2)
		// merge: the verdict and log of the second pass, the tape and statistics of both
		r2.Log = append(append(first.Log, "---- second pass ----"), r2.Log...)
		r2.Stats.SchedSteps += first.Stats.SchedSteps
		r2.Stats.ExternalSteps += first.Stats.ExternalSteps
		r2.Stats.StepsWithChoice += first.Stats.StepsWithChoice
		r2.Stats.NonNatural += first.Stats.NonNatural
		r2.Stats.HoldsFired += first.Stats.HoldsFired
		r2.Stats.SimNanos += first.Stats.SimNanos
		r2.Stats.InjectedDelayNs += first.Stats.InjectedDelayNs
		for k, v := range first.Stats.Faults {
			r2.Stats.Faults[k] += v
		}
		for k, v := range first.Stats.Probes {
			r2.Stats.Probes[k] += v
		}
		for k := range first.States {
			r2.States[k] = struct{}{}
		}
		for k := range first.Trans {
			r2.Trans[k] = struct{}{}
		}
		if r2.Desc == "" {
			r2.Desc = first.Desc
		}
		r2.NonTriv = r2.NonTriv || first.NonTriv
		tape = first.T // the first pass consumed the decisive choices
		r = r2
	}
	res.Hash = r.LogHash()
	res.Canon = r.CanonHash()
	res.Viol = r.Viol
	if r.Trouble != nil {
		res.Trouble = r.Trouble.Msg
	}
	res.Known = r.Known
	res.Stats = r.Stats
	res.Tape = map[string]int{}
	for k, v := range tape.Sparse() {
		res.Tape[fmt.Sprint(k)] = v
	}
	res.TapeLen = len(tape.Rec)
	res.NonTriv = r.NonTriv
	res.Desc = r.Desc
	for s := range r.States {
		res.States = append(res.States, s)
	}
	sort.Strings(res.States)
	for s := range r.Trans {
		res.Trans = append(res.Trans, s)
	}
	sort.Strings(res.Trans)
	res.Shape = r.Shape()
	if job.WantLog || r.Viol != nil || r.Trouble != nil {
		res.Log = r.Log
	}
	if job.WantLog && r.Sched != nil {
		res.SigHits = r.Sched.SigHits
		res.PUHits = r.Sched.PUHits
	}
	res.WallUs = time.Since(start).Microseconds()
	var ms runtime.MemStats
	runtime.ReadMemStats(&ms)
	res.MemMB = int(ms.Sys >> 20)
	return res
}

// Shape is a hash-like summary of the kinds of actions of the run.
func (r *Run) Shape() string {
	var b strings.Builder
	for _, l := range r.Log {
		// after "sNNN t=... " comes the verb
		i := strings.Index(l, " t=")
		if i < 0 {
			continue
		}
		rest := l[i+3:]
		j := strings.Index(rest, " ")
		if j < 0 {
			continue
		}
		verb := strings.Fields(rest[j+1:])
		if len(verb) > 0 {
			b.WriteByte(verb[0][0])
		}
	}
	return b.String()
}

// WorkerMain is the body of the worker test: it reads jobs (JSON lines) from
// stdin and writes results (JSON lines, prefixed "@@R ") to the original stdout.
func WorkerMain(t *testing.T) {
	out := os.Stdout
	devnull, _ := os.OpenFile(os.DevNull, os.O_WRONLY, 0)
	os.Stdout = devnull
	stdlog.SetOutput(io.Discard)
	// signal.Notify must have been called once outside any bubble.
	sig := make(chan os.Signal, 1)
	signal.Notify(sig, syscall.SIGINT, syscall.SIGTERM)
	defer func() {
		if fixtureBase != "" {
			os.RemoveAll(fixtureBase)
		}
	}()
	w := bufio.NewWriter(out)
	sc := bufio.NewScanner(os.Stdin)
	sc.Buffer(make([]byte, 1<<20), 64<<20)
	for sc.Scan() {
		line := sc.Bytes()
		if len(line) == 0 {
			continue
		}
		var job Job
		if err := json.Unmarshal(line, &job); err != nil {
			fmt.Fprintf(w, "@@E bad job: %v\n", err)
			w.Flush()
			continue
		}
		fmt.Fprintf(w, "@@B %d\n", job.ID)
		w.Flush()
		res := Execute(t, &job)
		if simsync.RaceEnabled {
			raceVerdict(&res, job.RaceFiles)
		}
		b, _ := json.Marshal(res)
		w.WriteString("@@R ")
		w.Write(b)
		w.WriteString("\n")
		w.Flush()
	}
}

// ---- race tier ----

var raceLogOff int64

// raceVerdict reads what the race detector reported during the job just executed (GORACE log_path=<prefix>, file
// <prefix>.<pid>) and turns the first data race between two accesses of emulator code into a violation of the job's
// property. Reports in which either access is harness code (verifsim/...) say nothing about the emulator: the
// simulation deliberately hides its own synchronisation from the detector.
func raceVerdict(res *Result, files []string) {
	prefix := os.Getenv("VERIF_RACE_LOG")
	if prefix == "" {
		return
	}
	f, err := os.Open(fmt.Sprintf("%s.%d", prefix, os.Getpid()))
	if err != nil {
		return
	}
	defer f.Close()
	f.Seek(raceLogOff, 0)
	b, _ := io.ReadAll(f)
	raceLogOff += int64(len(b))
	for _, rep := range strings.Split(string(b), "WARNING: DATA RACE")[1:] {
		var tops, topFiles []string
		lines := strings.Split(rep, "\n")
		for i, l := range lines {
			if (strings.Contains(l, " by goroutine ") || strings.Contains(l, " by main goroutine")) && (strings.HasPrefix(l, "Write at") || strings.HasPrefix(l, "Read at") || strings.HasPrefix(l, "Previous write at") || strings.HasPrefix(l, "Previous read at") || strings.HasPrefix(l, "Atomic") || strings.HasPrefix(l, "Previous atomic")) {
				// the first frame below that belongs to the emulator or the harness (skipping the standard library)
				top := ""
				for j := i + 1; j < len(lines) && strings.HasPrefix(lines[j], "  "); j++ {
					fn := strings.TrimSpace(lines[j])
					if strings.HasPrefix(fn, "go.amzn.com/") {
						top = fn
						if j+1 < len(lines) {
							file := strings.TrimSpace(lines[j+1])
							if k := strings.LastIndex(file, ":"); k > 0 {
								file = file[:k] // strip ":line +0x.."
							}
							topFiles = append(topFiles, file)
						}
						break
					}
				}
				tops = append(tops, top)
			}
		}
		if len(tops) < 2 {
			continue
		}
		harness := false
		for _, fn := range tops[:2] {
			if fn == "" || strings.Contains(fn, "go.amzn.com/verifsim/") || strings.Contains(fn, "go.amzn.com/cmd/aws-lambda-rie.Test") {
				harness = true
			}
		}
		if !harness && len(files) > 0 {
			// both accesses must lie in the files the property is anchored in
			in := 0
			for _, tf := range topFiles {
				for _, f := range files {
					if strings.HasSuffix(tf, "/"+f) {
						in++
						break
					}
				}
			}
			if len(topFiles) < 2 || in < 2 {
				if res.Stats.Probes != nil {
					res.Stats.Probes["race-report-outside-the-anchored-files-ignored"]++
				}
				continue
			}
		}
		if harness {
			if res.Stats.Probes != nil {
				res.Stats.Probes["race-report-in-harness-code-ignored"]++
			}
			continue
		}
		strip := func(fn string) string {
			return strings.TrimPrefix(strings.TrimSuffix(fn, "()"), "go.amzn.com/")
		}
		a, c := strip(tops[0]), strip(tops[1])
		if a > c {
			a, c = c, a
		}
		if res.Viol == nil && res.Trouble == "" {
			res.Viol = &Violation{Rule: res.Prop + ".data-race", Msg: fmt.Sprintf("unsynchronised accesses to the same memory by two goroutines of the emulator: %s / %s", a, c)}
			res.Log = append(res.Log, "DATA RACE"+rep, fmt.Sprintf("VIOLATION %s: %s", res.Viol.Rule, res.Viol.Msg))
		}
	}
}

func bubbleBody(t *testing.T, r *Run, scen Scenario, job *Job) {
	defer simsync.Install(nil)
	defer func() {
		if e := recover(); e != nil {
			msg := fmt.Sprint(e)
			if strings.Contains(msg, "deadlock: main bubble goroutine has exited") {
				return
			}
			if r.Trouble == nil {
				r.Trouble = &Trouble{Msg: "panic outside bubble main: " + msg}
			}
		}
	}()
	synctest.Test(t, func(t *testing.T) {
		r.T0 = time.Now()
		r.Sched = simsync.NewScheduler()
		r.Sched.UnlockYield = job.Knobs["uyield"] != 0
		simsync.Install(r.Sched)
		defer r.Sched.Stop()
		defer func() {
			if e := recover(); e != nil {
				if _, ok := e.(failSentinel); ok {
					return
				}
				if r.Trouble == nil {
					r.Trouble = &Trouble{Msg: fmt.Sprintf("harness panic: %v\n%s", e, debug.Stack())}
				}
			}
		}()
		scen(r, job)
	})
}
