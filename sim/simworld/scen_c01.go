package simworld

import (
	"bytes"
	"fmt"
	"math/rand"
	"strings"
	"time"
)

// C01: invocation round trip byte-exact, exactly one outcome.  C14: response size limit.
func init() {
	Scenarios["C01"] = func(r *Run, job *Job) { scenRoundTrip(r, job, "C01") }
	Scenarios["C14"] = func(r *Run, job *Job) { scenRoundTrip(r, job, "C14") }
}

// MaxPayload is the limit named by the property statements: 6 MiB + 100 bytes.
const MaxPayload = 6*1024*1024 + 100

type rtPlan struct {
	mode      string // ok | error | stall | exit | oversize
	evSize    int
	evClass   int
	respSize  int
	polls     int
	streamHdr bool // C14: the /response carries Lambda-Runtime-Function-Response-Mode: streaming
	cliCtx    string
	trace     string
	payload   []byte
	resp      []byte
}

func genBytes(rng *rand.Rand, class, n int, tag string) []byte {
	b := make([]byte, n)
	switch class {
	case 0: // text
		for i := range b {
			b[i] = byte('a' + rng.Intn(26))
		}
	case 1: // random binary incl. NUL, 0xFF, invalid UTF-8
		rng.Read(b)
		if n > 3 {
			b[n/2], b[n/2+1], b[n-1] = 0, 0xff, 0xc3
		}
	case 2: // JSON-ish
		s := `{"k":"` + strings.Repeat("v", maxInt(0, n-8)) + `"}`
		copy(b, s)
		for i := len(s); i < n; i++ {
			b[i] = ' '
		}
	}
	t := []byte("<" + tag + ">")
	if n >= len(t) {
		copy(b, t)
	}
	return b
}

func maxInt(a, b int) int {
	if a > b {
		return a
	}
	return b
}

func drawCtx(t *Tape, rng *rand.Rand, jsonWS bool) string {
	if !t.Chance(1, 2) {
		return ""
	}
	if jsonWS && rng.Intn(3) == 0 {
		// a JSON document with insignificant white space, as most SDKs serialise it: it must arrive as posted, not
		// re-serialised (C01/w8-2)
		return fmt.Sprintf(`{"custom": {"k%d": "v %d",  "n" : [1, 2 ,3]}, "client" : { "installation_id": "i-%d" } }`, rng.Intn(10), rng.Intn(100), rng.Intn(1000))
	}
	n := 1 + rng.Intn(40)
	b := make([]byte, n)
	for i := range b {
		b[i] = byte(33 + rng.Intn(94)) // visible ASCII
		if i > 0 && i < n-1 && rng.Intn(6) == 0 {
			b[i] = ' '
		}
	}
	return string(b)
}

func scenRoundTrip(r *Run, job *Job, prop string) {
	t := r.T
	rng := rand.New(rand.NewSource(job.Seed ^ 0x5eed))
	thorough := job.Tier == "thorough"
	timeoutSec := 2 + t.Draw(3)
	nInv := t.Range(2, 6)
	exts := DrawExts(t, 1, 1)
	fn := []string{"", "my-func", "f_2"}[t.Draw(3)]
	plans := make([]*rtPlan, nInv)
	big := 0
	bigBudget := 100
	if !thorough {
		bigBudget = 0
		if t.Chance(1, 4) {
			bigBudget = 1
		}
	}
	for i := range plans {
		p := &rtPlan{mode: "ok", polls: 0}
		tag := fmt.Sprintf("ev%d", i+1)
		if prop == "C01" {
			switch t.Weighted(10, 2, 1, 1) {
			case 1:
				p.mode = "error"
			case 2:
				p.mode = "stall"
			case 3:
				p.mode = "exit"
			}
			p.evClass = t.Draw(3)
			switch t.Weighted(3, 2, 2, 3, 2, 1) {
			case 0:
				p.evSize = 8 + t.Draw(200)
			case 1:
				p.evSize = 0
			case 2:
				p.evSize = 1
			case 3:
				p.evSize = 4096 + t.Draw(60000)
			case 4:
				p.evSize = 200000 + t.Draw(62144)
			case 5:
				if big < bigBudget {
					p.evSize = MaxPayload - t.Draw(2)
					big++
				} else {
					p.evSize = 300
				}
			}
			p.respSize = []int{0, 1, 7 + t.Draw(100), 5000 + t.Draw(50000)}[t.Draw(4)]
			if t.Chance(1, 4) {
				p.polls = 1 + t.Draw(2)
			}
			if t.Chance(1, 8) && big < bigBudget {
				p.mode = "oversize"
				big++
			} else if p.mode == "ok" && t.Chance(1, 6) && big < bigBudget {
				// a response of exactly (or one less than) the maximum size, e.g. the echo of a maximum-size event
				p.respSize = MaxPayload - t.Draw(2)
				big++
			}
		} else {
			// C14: sizes around the limit at every position, mixed with small ones
			p.evClass = t.Draw(2)
			p.evSize = 10 + t.Draw(100)
			p.respSize = 20 + t.Draw(100)
			if t.Chance(3, 5) {
				switch t.Draw(2) {
				case 0:
					p.respSize = []int{0, 1, MaxPayload / 2, MaxPayload - 1, MaxPayload, MaxPayload + 1, MaxPayload + 4096}[t.Draw(7)]
				case 1:
					p.evSize = []int{MaxPayload - 1, MaxPayload, MaxPayload + 1, MaxPayload + 100*1024}[t.Draw(4)]
				}
			}
			if p.respSize > MaxPayload {
				p.mode = "oversize"
			}
			if t.Chance(1, 3) {
				p.polls = 1 + t.Draw(2) // asks for the same event again before answering
			}
			// a runtime may announce the streaming response mode on its /response (a header the Runtime API defines);
			// through the emulator's front end the invocation is buffered all the same and the limit applies unchanged
			p.streamHdr = t.Chance(1, 3)
		}
		p.cliCtx = drawCtx(t, rng, prop == "C01" && job.Prop == "C01")
		if t.Chance(1, 3) {
			p.trace = DrawTrace(t, i+1)
		}
		p.payload = genBytes(rng, p.evClass, p.evSize, tag)
		if p.mode == "oversize" && prop == "C01" {
			p.respSize = MaxPayload + 1 + t.Draw(3)
		}
		p.resp = genBytes(rng, t.Draw(2), p.respSize, fmt.Sprintf("resp%d", i+1))
		plans[i] = p
	}
	w := r.NewWorld(WorldCfg{TimeoutSec: timeoutSec, ExtFiles: ExtFiles(exts), FunctionName: fn}, job.Seed)
	e := w.NewEngine()
	e.Bound = time.Duration(nInv*(timeoutSec+8)+20) * time.Second
	if t.Chance(1, 3) {
		r.ReorderNum, r.ReorderDen = 1, 4
	}
	initStall := []time.Duration{0, 0, 100 * time.Millisecond, 1500 * time.Millisecond}[t.Draw(4)]
	e.BehavFor = BehavForExts(exts, func(p *Proc, b *Behav) {
		if !p.IsRT {
			return
		}
		if initStall > 0 {
			b.Stalls = map[int]time.Duration{0: initStall} // the runtime takes its time to initialise
		}
		b.PerInv = func(inv *Invocation) *InvBehav {
			pl := plans[inv.N-1]
			ib := &InvBehav{Body: pl.resp, ExtraPolls: pl.polls}
			if pl.streamHdr {
				ib.Hdr = map[string]string{"Lambda-Runtime-Function-Response-Mode": "streaming"}
			}
			switch pl.mode {
			case "error":
				ib.Mode, ib.ErrType = "error", "Function.Sim"
			case "stall":
				ib.Mode = "stall"
			case "exit":
				ib.Mode, ib.Exit = "exit", 1
			}
			return ib
		}
	})
	// a caller that reads a large answer slowly (64 KiB receive buffer, a pause after the first 100 000 bytes) while
	// the next caller is already being served
	slowAt := -1
	if nInv >= 2 && t.Chance(1, 6) {
		slowAt = t.Draw(nInv - 1)
		for _, k := range []int{slowAt, slowAt + 1} {
			if plans[k].mode == "ok" || plans[k].mode == "oversize" {
				plans[k].mode = "ok"
				plans[k].respSize = 700000 + t.Draw(600000)
				if prop == "C14" {
					plans[k].respSize = MaxPayload - t.Draw(3) // in every position: also right behind another maximum-size answer
				}
				plans[k].resp = genBytes(rng, 0, plans[k].respSize, fmt.Sprintf("resp%d", k+1))
			}
		}
	}
	var desc []string
	for i, p := range plans {
		spec := InvSpec{Payload: p.payload, CliCtx: p.cliCtx, Trace: p.trace}
		if i == slowAt {
			spec.SlowAfter, spec.SlowPause = 100000, 300*time.Millisecond
		}
		e.Plan = append(e.Plan, spec)
		desc = append(desc, fmt.Sprintf("%s(ev=%d/%d,resp=%d,polls=%d,ctx=%d)", p.mode, p.evSize, p.evClass, p.respSize, p.polls, len(p.cliCtx)))
	}
	r.Desc = fmt.Sprintf("%s T=%ds fn=%q exts=%v init=%v slow=%d plan=%v", prop, timeoutSec, fn, exts, initStall, slowAt, desc)
	r.Logf("%s", r.Desc)
	if prop == "C01" && initStall > 0 && t.Chance(1, 2) {
		// while the first invocation waits for the runtime to initialise, somebody else posts an event (and is refused):
		// the event of the waiting invocation must not be affected
		fired := false
		e.Extra = func() []action {
			if fired || len(w.Invokes) == 0 || w.Invokes[0].Dispatched || !w.Invokes[0].Call.Pending() {
				return nil
			}
			return []action{{"refused-caller", func() {
				fired = true
				r.NextStep()
				r.Fault("refused-caller-during-init")
				c := r.Dial(FrontAddr).Start("intruder", "POST", InvokePath, nil, genBytes(rng, 1, len(plans[0].payload), "intruder"))
				r.Settle()
				_ = c
			}}}
		}
	}
	e.Stuck = func() { r.Failf(prop+".hang", "plan did not finish within the bound") }
	e.Run()
	judgeRoundTrip(r, w, e, prop, plans, fn)
}

func judgeRoundTrip(r *Run, w *World, e *Engine, prop string, plans []*rtPlan, fn string) {
	if fn == "" {
		fn = "test_function"
	}
	arn := "arn:aws:lambda:us-east-1:012345678912:function:" + fn
	T := time.Duration(w.Cfg.TimeoutSec) * time.Second
	seenIDs := map[string]int{}
	r.Check(len(w.Invokes) == len(plans), prop+".hang", "%d of %d invocations were made", len(w.Invokes), len(plans))
	// every delivery to any runtime
	for _, a := range e.Actors() {
		if !a.IsRT {
			continue
		}
		byID := map[string]Delivery{}
		for _, d := range a.Deliveries {
			r.Check(d.Inv != nil, prop+".phantom-delivery", "%s received an event (id %s) that belongs to no pending invocation", a.Who, d.ReqID)
			pl := plans[d.Inv.N-1]
			if first, dup := byID[d.ReqID]; dup {
				r.Probe("repeated-poll")
				r.Check(bytes.Equal(first.Body, d.Body) && first.Hdr["Lambda-Runtime-Deadline-Ms"] == d.Hdr["Lambda-Runtime-Deadline-Ms"], prop+".repeated-poll", "repeated poll for %s returned a different event", d.ReqID)
				continue
			}
			byID[d.ReqID] = d
			if n, used := seenIDs[d.ReqID]; used {
				r.Failf(prop+".request-id-reuse", "request id %s of invocation %d was already used by invocation %d", d.ReqID, d.Inv.N, n)
			}
			seenIDs[d.ReqID] = d.Inv.N
			want := pl.payload
			if len(want) > MaxPayload {
				want = want[:MaxPayload]
				r.Probe("event-cut-at-limit")
			}
			if !bytes.Equal(d.Body, want) {
				r.Failf(prop+".event-bytes", "invocation %d: runtime received %d bytes %s, the caller posted %d bytes %s", d.Inv.N, len(d.Body), summarize(d.Body), len(pl.payload), summarize(want))
			}
			r.Check(d.Hdr["Lambda-Runtime-Invoked-Function-Arn"] == arn, prop+".arn", "invocation %d: ARN %q, expected %q", d.Inv.N, d.Hdr["Lambda-Runtime-Invoked-Function-Arn"], arn)
			r.Check(d.Hdr["Lambda-Runtime-Client-Context"] == pl.cliCtx, prop+".client-context", "invocation %d: client context %q, expected %q", d.Inv.N, d.Hdr["Lambda-Runtime-Client-Context"], pl.cliCtx)
			wantDl := int64((946684800*time.Second + d.Inv.ArrivalAt + T) / time.Millisecond)
			diff := d.DeadlineMs() - wantDl
			r.Check(diff >= -2 && diff <= 2, prop+".deadline", "invocation %d: deadline header %d, arrival+timeout = %d", d.Inv.N, d.DeadlineMs(), wantDl)
			r.NonTriv = true
		}
	}
	// submissions accepted per request id
	accepted := map[string]int{}
	for _, a := range e.Actors() {
		for _, c := range a.Calls {
			if (c.Tag == "rt-response" || c.Tag == "rt-error") && c.Done && c.Status == 202 {
				parts := strings.Split(c.Path, "/")
				accepted[parts[len(parts)-2]]++
			}
		}
	}
	for id, n := range accepted {
		r.Check(n <= 1, prop+".double-accept", "%d submissions were accepted for request id %s", n, id)
	}
	timeoutBody := []byte(timeoutText(w.Cfg.TimeoutSec))
	for i, inv := range w.Invokes {
		pl := plans[i]
		r.Check(inv.Call.Done && inv.Call.Err == nil, prop+".hang", "invocation %d: %s", inv.N, inv.Call)
		st, body := inv.Call.Status, inv.Call.Body
		// nobody else's bytes
		for j, other := range plans {
			if j != i && len(other.resp) >= 8 && bytes.Contains(body, other.resp[:8]) && bytes.HasPrefix(other.resp, []byte("<resp")) {
				r.Failf(prop+".cross-delivery", "caller %d received bytes of the response to invocation %d", inv.N, j+1)
			}
		}
		switch pl.mode {
		case "ok", "error":
			r.Check(inv.Dispatched, prop+".not-dispatched", "invocation %d was never delivered to the runtime (%s)", inv.N, inv.Call)
			if pl.mode == "ok" {
				r.Check(st == 200, prop+".status", "invocation %d: status %d", inv.N, st)
			}
			if !bytes.Equal(body, pl.resp) {
				r.Failf(prop+".response-bytes", "invocation %d (%s): caller received %d bytes %s, the runtime posted %d bytes %s", inv.N, pl.mode, len(body), summarize(body), len(pl.resp), summarize(pl.resp))
			}
			if len(pl.resp) == MaxPayload {
				r.Probe("response-exactly-at-limit")
			}
		case "oversize":
			eb, ok := ParseErr(body)
			r.Check(ok && eb.ErrorType == "Function.ResponseSizeTooLarge", prop+".oversize-error", "invocation %d: oversized response (%d bytes), caller got %d %s", inv.N, len(pl.resp), st, summarize(body))
			r.Check(strings.Contains(eb.ErrorMessage, fmt.Sprint(len(pl.resp))) && strings.Contains(eb.ErrorMessage, fmt.Sprint(MaxPayload)), prop+".oversize-sizes", "invocation %d: error message %q does not state both sizes (%d, %d)", inv.N, eb.ErrorMessage, len(pl.resp), MaxPayload)
			// runtime got 413
			got413 := false
			for _, a := range e.Actors() {
				for _, c := range a.Calls {
					if c.Tag == "rt-response" && c.Done && strings.Contains(c.Path, inv.ReqID) {
						got413 = c.Status == 413
					}
				}
			}
			r.Check(got413, prop+".oversize-413", "invocation %d: the runtime was not answered 413", inv.N)
			r.Probe("oversize")
			// survivable: no process started or killed between this invocation and the next
			if i+1 < len(w.Invokes) {
				next := w.Invokes[i+1]
				for _, q := range w.Sup.Requests() {
					end := next.Call.EndStep
					if next.AnswerStep > 0 && next.AnswerStep < end {
						end = next.AnswerStep // (a slow reader finishes reading long after its invocation was answered)
					}
					if q.Step > inv.DispStep && q.Step <= end && plans[i+1].mode != "stall" && plans[i+1].mode != "exit" {
						r.Failf(prop+".oversize-reset", "supervisor request %s between the oversized invocation %d and the next one", q, inv.N)
					}
				}
			}
		case "stall":
			r.Check(st == 200 && bytes.Equal(body, timeoutBody), prop+".timeout-outcome", "invocation %d (runtime stalls): %d %s", inv.N, st, summarize(body))
			r.Probe("history-timeout")
		case "exit":
			eb, ok := ParseErr(body)
			r.Check(st >= 500 && ok && eb.ErrorType == "Runtime.ExitError", prop+".exit-outcome", "invocation %d (runtime exits): %d %s", inv.N, st, summarize(body))
			r.Probe("history-crash")
		}
	}
}
