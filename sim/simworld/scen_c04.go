package simworld

import (
	"bytes"
	"fmt"
	"time"
)

// C04: invoke barrier and INVOKE event fan-out.
func init() {
	Scenarios["C04"] = scenC04
}

func scenC04(r *Run, job *Job) {
	t := r.T
	exts := DrawExts(t, 3, 2)
	nInv := t.Range(2, 6)
	timeout := 300
	cfg := WorldCfg{TimeoutSec: timeout, ExtFiles: ExtFiles(exts)}
	// scheduling policy
	switch t.Draw(3) {
	case 1:
		r.ReorderNum, r.ReorderDen = 1, 4
	case 2:
		r.ReorderNum, r.ReorderDen = 1, 2
	}
	if t.Chance(1, 4) {
		// a party's poll is descheduled where it suspends itself (between testing its release flag and waiting, or
		// on its way out of the wait) while the next invocation is dispatched
		r.MaxHoldTime = 5 * time.Second
		r.AddHold("ManagedThread).SuspendUnsafe", 2+t.Draw(10), 1+t.Draw(3))
	}
	w := r.NewWorld(cfg, job.Seed)
	e := w.NewEngine()
	e.Bound = time.Duration(nInv+1) * 310 * time.Second
	switch t.Draw(3) {
	case 1:
		e.PermNum, e.PermDen = 1, 3
	case 2:
		e.PermNum, e.PermDen = 2, 3
	}
	// one party held back: which (index among parties), before which call, how long
	nParties := 1 + len(exts)
	stallParty := -1
	var stallAt int
	var stallDur time.Duration
	if t.Chance(2, 3) {
		stallParty = t.Draw(nParties)
		stallAt = 1 + t.Draw(2*nInv)
		stallDur = DrawStall(t, 200*time.Second)
	}
	// a history: the runtime of the first generation exits after its first invocation, the next invocation fails and
	// resets the environment; the invocations under test are served by the generation started after that
	prologue := t.Chance(1, 4)
	if prologue {
		nInv += 3
	}
	for i := 0; i < nInv; i++ {
		tr := ""
		if t.Chance(2, 3) {
			tr = DrawTrace(t, i+1)
		}
		e.Plan = append(e.Plan, InvSpec{Payload: Tagged(fmt.Sprintf("ev%d", i+1), 8+t.Draw(64)), Trace: tr})
	}
	partyIdx := func(p *Proc, name string) int {
		if p.IsRT && name == "" {
			return 0
		}
		for i, x := range exts {
			if x.Name == name {
				return 1 + i
			}
		}
		return -99
	}
	e.BehavFor = BehavForExts(exts, func(p *Proc, b *Behav) {
		if prologue && w.GenOrdinal(p.Gen) == 1 {
			if p.IsRT {
				b.DieAfterInv = 1
			}
			return
		}
		if p.IsRT {
			if stallParty == 0 {
				b.Stalls = map[int]time.Duration{stallAt: stallDur}
			}
			for i := range b.Internals {
				if partyIdx(p, b.Internals[i].Name) == stallParty {
					b.Internals[i].B = &Behav{ThenHealthy: true, Subs: b.Internals[i].Subs, Stalls: map[int]time.Duration{stallAt: stallDur}}
				}
			}
		} else if partyIdx(p, p.ExtName) == stallParty {
			b.Stalls = map[int]time.Duration{stallAt: stallDur}
		}
	})
	r.Desc = fmt.Sprintf("C04 exts=%v inv=%d stallParty=%d at=%d dur=%s reorder=%d/%d perm=%d/%d prologue=%v", exts, nInv, stallParty, stallAt, stallDur, r.ReorderNum, r.ReorderDen, e.PermNum, e.PermDen, prologue)
	r.Logf("%s", r.Desc)
	e.OnQuiescent = func() {
		if !prologue {
			c04Step(r, w, e, exts, 1, w.Invokes)
		} else if g, invs := c04Tail(w, e); g > 0 {
			c04Step(r, w, e, exts, g, invs)
		}
	}
	e.Stuck = func() { r.Failf("C04.liveness", "plan not finished within the bound") }
	e.Run()
	if !prologue {
		c04Final(r, w, e, exts, 1, w.Invokes)
		return
	}
	g, invs := c04Tail(w, e)
	if g <= 1 || len(invs) == 0 {
		// the scheduled exit came so late that the callers were through before it: nothing left to judge
		r.Probe("history:prologue-consumed-every-invocation")
		return
	}
	r.Probe("history:reset-before-the-invocations-under-test")
	c04Final(r, w, e, exts, g, invs)
}

// c04Tail returns the generation of the latest runtime and the invocations it is there for: those not yet answered
// when it was started.
func c04Tail(w *World, e *Engine) (int, []*Invocation) {
	g := 0
	for _, a := range e.Actors() {
		if a.IsRT && a.P.Gen > g {
			g = a.P.Gen
		}
	}
	rt := rtActor(e, g)
	if rt == nil || w.GenOrdinal(g) == 1 {
		return 0, nil
	}
	var invs []*Invocation
	for _, inv := range w.Invokes {
		if !inv.Call.Done || inv.Call.EndStep > rt.P.ExecStep {
			invs = append(invs, inv)
		}
	}
	return g, invs
}

// returnedToNext reports the step at which the actor issued the poll that follows the delivery of id (0 = not yet).
func returnedToNext(a *Actor, id string) int {
	for i, d := range a.Deliveries {
		if d.ReqID != id || (d.Type != "invoke" && d.Type != "INVOKE") {
			continue
		}
		_ = i
		// find the first next-call issued after the call that delivered it
		for _, c := range a.Calls {
			if c.Seq > d.CallSeq && (c.Tag == "rt-next" || c.Tag == "ext-next") {
				return c.StartStep
			}
		}
		return 0
	}
	return -1 // never delivered
}

func subscribedActors(e *Engine, exts []ExtCfg, gen int) (subs, nonsubs []*Actor) {
	for _, a := range e.Actors() {
		if a.IsRT || a.P.Gen != gen {
			continue
		}
		if !a.Registered {
			continue
		}
		inv := false
		for _, s := range a.Subs {
			if s == "INVOKE" {
				inv = true
			}
		}
		if inv {
			subs = append(subs, a)
		} else {
			nonsubs = append(nonsubs, a)
		}
	}
	return
}

func rtActor(e *Engine, gen int) *Actor {
	for _, a := range e.Actors() {
		if a.IsRT && a.P.Gen == gen {
			return a
		}
	}
	return nil
}

// c04Step: barrier invariant at every quiescent point.
func c04Step(r *Run, w *World, e *Engine, exts []ExtCfg, gen int, invokes []*Invocation) {
	rt := rtActor(e, gen)
	if rt == nil {
		return
	}
	subs, _ := subscribedActors(e, exts, gen)
	for _, inv := range invokes {
		if !inv.Dispatched {
			r.Check(!inv.Call.Done, "C04.answer-without-dispatch", "invocation %d answered (%s) without having been delivered to the runtime", inv.N, inv.Call)
			continue
		}
		// has everybody returned?
		all := true
		last := 0
		rs := returnedToNext(rt, inv.ReqID)
		if inv.AnswerKind == "" || rs <= 0 {
			all = false
		} else {
			if inv.AnswerStep > last {
				last = inv.AnswerStep
			}
			if rs > last {
				last = rs
			}
		}
		for _, a := range subs {
			s := returnedToNext(a, inv.ReqID)
			if s <= 0 {
				all = false
			} else if s > last {
				last = s
			}
		}
		if inv.Call.Done {
			r.NonTriv = r.NonTriv || len(subs) > 0
			r.Check(all, "C04.early-completion", "invocation %d (id %s) reported complete at step %d before every party returned to next", inv.N, inv.ReqID, inv.Call.EndStep)
			r.Check(inv.Call.EndStep >= last, "C04.early-completion", "invocation %d complete at step %d, last return at step %d", inv.N, inv.Call.EndStep, last)
		} else if all && !r.HeldNow() {
			r.Failf("C04.late-completion", "invocation %d: every party returned (last at step %d) but the caller is not answered at the quiescent point of step %d", inv.N, last, r.Step)
		}
	}
}

func c04Final(r *Run, w *World, e *Engine, exts []ExtCfg, gen int, invokes []*Invocation) {
	rt := rtActor(e, gen)
	r.Check(rt != nil, "C04.no-runtime", "runtime never started")
	if rt == nil {
		return
	}
	subs, nonsubs := subscribedActors(e, exts, gen)
	nProcs := 0
	for _, p := range w.Sup.All() {
		if p.Gen >= gen {
			nProcs++
		}
	}
	r.Check(nProcs == 1+len(ExtFiles(exts)), "C04.unexpected-restart", "processes started for the invocations under test: %d, expected %d (no reset may happen among them)", nProcs, 1+len(ExtFiles(exts)))
	for _, inv := range invokes {
		r.Check(inv.Call.Is(200), "C04.caller", "invocation %d: caller got %s", inv.N, inv.Call)
		r.Check(inv.Dispatched, "C04.caller", "invocation %d never dispatched", inv.N)
		r.Check(bytes.Equal(inv.Call.Body, inv.Answered), "C04.caller-body", "invocation %d: caller body differs from the runtime's response", inv.N)
	}
	// runtime deliveries in caller order, exactly one per invocation
	r.Check(len(rt.Deliveries) == len(invokes), "C04.runtime-deliveries", "runtime got %d events for %d invocations", len(rt.Deliveries), len(invokes))
	for i, d := range rt.Deliveries {
		if i >= len(invokes) {
			break
		}
		inv := invokes[i]
		r.Check(d.Inv == inv && d.ReqID == inv.ReqID, "C04.order", "runtime delivery %d is not invocation %d", i+1, inv.N)
		r.Check(bytes.Equal(d.Body, inv.Payload), "C04.payload", "runtime delivery %d payload differs", i+1)
	}
	for _, a := range subs {
		var got []Delivery
		for _, d := range a.Deliveries {
			if d.Type == "INVOKE" {
				got = append(got, d)
			} else {
				r.Failf("C04.event-type", "%s received a %q event during healthy invocations", a.Who, d.Type)
			}
		}
		r.Check(len(got) == len(invokes), "C04.fanout", "%s (subs %v) got %d INVOKE events for %d invocations", a.Who, a.Subs, len(got), len(invokes))
		for i, d := range got {
			if i >= len(invokes) || i >= len(rt.Deliveries) {
				break
			}
			inv := invokes[i]
			rd := rt.Deliveries[i]
			r.Check(d.Ev.RequestID == inv.ReqID, "C04.fanout-id", "%s event %d has id %s, runtime had %s", a.Who, i+1, d.Ev.RequestID, inv.ReqID)
			r.Check(d.Ev.InvokedFunctionArn == rd.Hdr["Lambda-Runtime-Invoked-Function-Arn"] && d.Ev.InvokedFunctionArn != "", "C04.fanout-arn", "%s event %d arn %q vs runtime %q", a.Who, i+1, d.Ev.InvokedFunctionArn, rd.Hdr["Lambda-Runtime-Invoked-Function-Arn"])
			diff := d.Ev.DeadlineMs - rd.DeadlineMs()
			r.Check(diff >= -5 && diff <= 5, "C04.fanout-deadline", "%s event %d deadline %d vs runtime %d", a.Who, i+1, d.Ev.DeadlineMs, rd.DeadlineMs())
			if inv.TraceID == "" {
				r.Check(d.Ev.Tracing == nil || d.Ev.Tracing.Value == "", "C04.fanout-trace", "%s event %d has tracing %v but the caller sent none", a.Who, i+1, d.Ev.Tracing)
			} else {
				r.Check(d.Ev.Tracing != nil && d.Ev.Tracing.Value == inv.TraceID, "C04.fanout-trace", "%s event %d tracing %+v, caller sent %q", a.Who, i+1, d.Ev.Tracing, inv.TraceID)
			}
		}
		r.NonTriv = true
	}
	for _, a := range nonsubs {
		for _, d := range a.Deliveries {
			r.Failf("C04.fanout-unsubscribed", "%s (subs %v) received an event %s", a.Who, a.Subs, d.Type)
		}
	}
}
