package simworld

import (
	"encoding/json"
	"fmt"
	"strings"
	"time"

	"go.amzn.com/lambda/interop"
)

// C18: snapshot restore protocol and credential endpoint.
func init() {
	Scenarios["C18"] = scenC18
}

type c18Restore struct {
	n         int
	hook      time.Duration
	key       string
	startStep int
	startAt   time.Duration
	done      bool
	endStep   int
	endAt     time.Duration
	err       error
}

const credPath = "/2021-04-23/credentials"

func scenC18(r *Run, job *Job) {
	t := r.T
	timeoutSec := 5
	envCreds := t.Chance(1, 2)
	env := map[string]string{}
	if envCreds {
		env["AWS_ACCESS_KEY_ID"], env["AWS_SECRET_ACCESS_KEY"], env["AWS_SESSION_TOKEN"] = "AKIAINITKEY", "initsecret", "initsession"
	}
	if t.Chance(1, 3) {
		r.ReorderNum, r.ReorderDen = 1, 4
	}
	if t.Chance(1, 4) {
		// the restore is descheduled right where it installs the new credentials
		// ... or at one of its other steps (installing the restore renderer, looking at / releasing the runtime)
		site := []string{"credentialsServiceImpl).UpdateCredentials", "credentialsServiceImpl).UpdateCredentials", "SetRenderer<lambda/rapid.handleRestore", "lambda/rapid.handleRestore", "AwaitRuntimeReadyWithDeadline<lambda/rapid.handleRestore"}[t.Draw(5)]
		r.AddHold(site, 1+t.Draw(2), 1+t.Draw(3))
	}
	w := r.NewWorld(WorldCfg{TimeoutSec: timeoutSec, InitCaching: true, Env: env}, job.Seed)
	e := w.NewEngine()
	e.Bound = 60 * time.Second
	// runtime behaviour
	mode := []string{"hook-ok", "hook-ok", "restore-error", "init-error", "overrun", "exit", "no-restore-poll", "late-poll"}[t.Draw(8)]
	errHdr := []string{"Runtime.RestoreBoom", "garbage type", "Function.lower"}[t.Draw(3)]
	wantType := map[string]string{"Runtime.RestoreBoom": "Runtime.RestoreBoom", "garbage type": "Runtime.Unknown", "Function.lower": "Function.Unknown"}[errHdr]
	hook := []time.Duration{100 * time.Millisecond, time.Second, 3 * time.Second}[t.Draw(3)]
	hookWork := []time.Duration{0, hook / 2, hook - time.Millisecond}[t.Draw(3)] // how long the hook runs when it completes
	overrunBy := []time.Duration{time.Millisecond, 100 * time.Millisecond, 2 * time.Second}[t.Draw(3)]
	nRestores := 1 + t.Draw(2)
	if mode == "overrun" && len(r.Holds) == 0 && t.Chance(1, 4) {
		// boundary: a hook timeout of 0 ms - a runtime that does not answer at once has overrun it. Only in runs
		// without a hold: a restore that is descheduled until the runtime has answered finds both cases of the
		// emulator's select ready (deadline passed, runtime ready) and Go picks at random - either outcome is
		// legitimate then and the run would not replay (found by the thorough tier, seed 1360801)
		hook = 0
	}
	var script []Op
	switch mode {
	case "hook-ok":
		script = []Op{{Kind: "restorenext"}, {Kind: "stall", D: hookWork}, {Kind: "next"}}
	case "restore-error":
		script = []Op{{Kind: "restorenext"}, {Kind: "stall", D: hookWork}, {Kind: "restoreerror", Arg: errHdr}, {Kind: "exit", N: 1}}
	case "init-error":
		script = []Op{{Kind: "restorenext"}, {Kind: "stall", D: hookWork}, {Kind: "initerror", Arg: errHdr}, {Kind: "exit", N: 1}}
	case "overrun":
		script = []Op{{Kind: "restorenext"}, {Kind: "stall", D: hook + overrunBy}, {Kind: "next"}}
	case "exit":
		script = []Op{{Kind: "restorenext"}, {Kind: "stall", D: hookWork}, {Kind: "exit", N: 1}}
	case "no-restore-poll":
		script = []Op{{Kind: "next"}}
	case "late-poll":
		script = []Op{{Kind: "stall", D: 10 * time.Second}, {Kind: "restorenext"}, {Kind: "next"}}
	}
	e.BehavFor = func(p *Proc) *Behav {
		b := &Behav{ThenHealthy: true}
		if p.IsRT && w.GenOrdinal(p.Gen) == 1 {
			b.Script = script
		}
		return b
	}
	// eager initialisation (no invocation pending)
	r.NextStep()
	r.Go(func() { EagerInit(w.Builder.LambdaInvokeAPI(), int64(timeoutSec), w.BS) })
	r.Settle()
	var restores []*c18Restore
	var credCalls []*Call
	credWant := map[*Call]string{} // expected key ("" = must be refused)
	curKey := "AKIAINITKEY"
	if !envCreds {
		curKey = ""
	}
	prevKey := curKey
	credPrev := map[*Call]string{} // the key in force before the most recent restore request (legitimate while that restore has not released the runtime yet)
	credHeld := map[*Call]bool{}
	credSince := map[*Call]int{} // step at which the most recent restore request was made
	startRestore := func() {
		rs := &c18Restore{n: len(restores) + 1, hook: hook, key: fmt.Sprintf("AKIARESTORE%d", len(restores)+1)}
		restores = append(restores, rs)
		r.NextStep()
		rs.startStep, rs.startAt = r.Step, r.Now()
		prevKey = curKey
		curKey = rs.key
		r.Logf("operator restore #%d hook=%s key=%s", rs.n, hook, rs.key)
		r.Go(func() {
			_, err := w.Server.Restore(&interop.Restore{AwsKey: rs.key, AwsSecret: "secret-" + rs.key, AwsSession: "session-" + rs.key,
				CredentialsExpiry: time.Date(2000, 1, 2, 0, 0, rs.n, 0, time.UTC), RestoreHookTimeoutMs: hook.Milliseconds(), LogStreamName: "stream"})
			rs.err = err
			rs.endStep, rs.endAt, rs.done = r.Step, r.Now(), true
		})
		r.Settle()
	}
	token := func() string {
		if p := w.Sup.Proc("runtime-1"); p != nil {
			return p.Env["AWS_CONTAINER_AUTHORIZATION_TOKEN"]
		}
		return ""
	}
	askCreds := func(kind string) {
		rt := rtActor(e, 1)
		if rt == nil || !rt.P.Alive {
			return
		}
		hdr := map[string]string{}
		want := ""
		switch kind {
		case "right":
			hdr["Authorization"] = token()
			want = curKey
			if token() == "" {
				return
			}
		case "wrong":
			hdr["Authorization"] = "00000000-1111-2222-3333-444444444444"
		case "empty":
		}
		c := rt.Side("cred-"+kind, "GET", credPath, hdr, nil)
		credCalls = append(credCalls, c)
		credPrev[c] = prevKey
		if n := len(restores); n > 0 {
			credSince[c] = restores[n-1].startStep
		}
		credHeld[c] = r.HeldNow() || r.holdEverFired() && c.EndStep <= c.StartStep+1
		credWant[c] = want
		if kind == "right" {
			credWant[c] = "=" + want
		}
	}
	restoreAt := []string{"after-restore-poll", "before-any-poll"}[t.Weighted(5, 1)]
	if mode == "late-poll" {
		restoreAt = "before-any-poll"
	}
	started := 0
	e.Extra = func() []action {
		var acts []action
		rt := rtActor(e, 1)
		last := (*c18Restore)(nil)
		if len(restores) > 0 {
			last = restores[len(restores)-1]
		}
		readyForRestore := false
		if started < nRestores && (last == nil || last.done) {
			switch restoreAt {
			case "before-any-poll":
				readyForRestore = rt != nil && started == 0 || rt != nil && started > 0
			default:
				readyForRestore = rt != nil && len(rt.Calls) > 0 && (rt.Busy() || started > 0 || mode == "no-restore-poll")
			}
		}
		if readyForRestore {
			acts = append(acts, action{"operator restore", func() { started++; startRestore() }})
		}
		if rt != nil && rt.P.Alive && len(credCalls) < 6 {
			acts = append(acts, action{"credentials right", func() { askCreds("right") }})
			acts = append(acts, action{"credentials wrong", func() { askCreds([]string{"wrong", "empty"}[len(credCalls)%2]) }})
		}
		return acts
	}
	e.PermNum, e.PermDen = 1, 2
	// invocations start only after the restores are over
	e.Hold = func() bool {
		if started < nRestores {
			return true
		}
		for _, rs := range restores {
			if !rs.done {
				return true
			}
		}
		return false
	}
	e.Plan = []InvSpec{{Payload: Tagged("ev1", 16)}, {Payload: Tagged("ev2", 16)}}
	r.Desc = fmt.Sprintf("C18 mode=%s errHdr=%q hook=%s work=%s overrun=%s restores=%d at=%s envCreds=%v reorder=%d/%d", mode, errHdr, hook, hookWork, overrunBy, nRestores, restoreAt, envCreds, r.ReorderNum, r.ReorderDen)
	r.Logf("%s", r.Desc)
	e.Stuck = func() {
		for _, rs := range restores {
			r.Check(rs.done, "C18.restore-hang", "restore #%d (started at %s, hook timeout %s) never returned", rs.n, fmtDur(rs.startAt), rs.hook)
		}
	}
	e.Run()
	// ---- oracle ----
	rtp := w.Sup.Proc("runtime-1")
	r.Check(rtp != nil, "C18.no-runtime", "the runtime was never started")
	// environment of the runtime
	r.Check(rtp.Env["AWS_CONTAINER_AUTHORIZATION_TOKEN"] != "" && strings.HasSuffix(rtp.Env["AWS_CONTAINER_CREDENTIALS_FULL_URI"], credPath), "C18.env-token", "runtime environment lacks the credentials token / URI: token=%q uri=%q", rtp.Env["AWS_CONTAINER_AUTHORIZATION_TOKEN"], rtp.Env["AWS_CONTAINER_CREDENTIALS_FULL_URI"])
	for _, k := range []string{"AWS_ACCESS_KEY_ID", "AWS_SECRET_ACCESS_KEY", "AWS_SESSION_TOKEN"} {
		if v, ok := rtp.Env[k]; ok {
			r.Failf("C18.env-credentials", "snapshot mode: the runtime environment contains %s=%q", k, v)
		}
	}
	rt := rtActor(e, 1)
	var restorePoll, nextAfter *Call
	for _, c := range rt.Calls {
		if c.Tag == "rt-restorenext" && restorePoll == nil {
			restorePoll = c
		}
		if c.Tag == "rt-next" && restorePoll != nil && nextAfter == nil && c.Seq > restorePoll.Seq {
			nextAfter = c
		}
	}
	for i, rs := range restores {
		r.Check(rs.done, "C18.restore-hang", "restore #%d never returned", rs.n)
		r.NonTriv = true
		el := rs.endAt - rs.startAt
		inPoll := restorePoll != nil && restorePoll.StartStep < rs.startStep && (!restorePoll.Done || restorePoll.EndStep >= rs.startStep)
		_ = i
		if !inPoll && restorePoll != nil && len(r.Holds) > 0 && r.Holds[0].W != nil {
			h := r.Holds[0]
			if rs.startStep <= h.AtStep && h.AtStep <= rs.endStep && restorePoll.StartStep >= h.AtStep && restorePoll.StartStep <= h.AtStep+h.Steps {
				// the restore was descheduled before it looked at the runtime, which entered its poll meanwhile: whether
				// it found the runtime parked depends on who was scheduled first afterwards - both outcomes are legitimate
				r.Probe("restore:order-decided-by-the-hold")
				continue
			}
		}
		if !inPoll {
			// the runtime was not parked in its restore poll: returns at once
			r.Probe("restore:not-in-poll")
			r.Check((rs.endStep == rs.startStep || r.holdEverFired() && el <= r.MaxHoldTime) && rs.err == nil, "C18.restore-not-at-once", "restore #%d: the runtime was not in its restore poll, yet the request took until step %d (started %d) err=%v", rs.n, rs.endStep, rs.startStep, rs.err)
			continue
		}
		r.Probe("restore:" + mode)
		// the runtime parked in its restore poll is released by this restore so that it runs its hook: the poll is
		// answered 200 with an empty body (a runtime that is told anything else does not run its hook)
		if restorePoll.Done && restorePoll.Err == nil {
			r.Check(restorePoll.Status == 200 && len(restorePoll.Body) == 0, "C18.restore-poll-answer", "restore #%d released the runtime's restore poll with %d %s, expected 200 and an empty body", rs.n, restorePoll.Status, summarize(restorePoll.Body))
		}
		switch mode {
		case "hook-ok":
			r.Check(rs.err == nil, "C18.restore-failed", "restore #%d failed (%v) although the hook completed in time", rs.n, rs.err)
			r.Check(nextAfter != nil && nextAfter.StartStep <= rs.endStep, "C18.restore-early-success", "restore #%d succeeded at step %d before the runtime asked for the next invocation", rs.n, rs.endStep)
		case "overrun":
			r.Check(rs.err != nil && strings.Contains(rs.err.Error(), "RestoreHookUserTimeout"), "C18.restore-timeout", "restore #%d: the hook overran %s, result err=%v", rs.n, rs.hook, rs.err)
			r.Check(el >= rs.hook && el <= rs.hook+50*time.Millisecond, "C18.restore-timeout-instant", "restore #%d returned after %s, hook timeout %s", rs.n, el, rs.hook)
		case "restore-error", "init-error":
			r.Check(rs.err != nil, "C18.restore-error-lost", "restore #%d succeeded although the runtime reported an error", rs.n)
			got := ""
			if ue, ok := rs.err.(interop.ErrRestoreHookUserError); ok {
				got = string(ue.UserError.Type)
			} else if rs.err != nil {
				got = rs.err.Error()
			}
			r.Check(got == wantType, "C18.restore-error-type", "restore #%d: runtime reported %q, the restore error carries %q, expected %q", rs.n, errHdr, got, wantType)
			r.Check(el <= rs.hook, "C18.restore-error-late", "restore #%d returned after %s", rs.n, el)
		case "exit":
			r.Check(rs.err != nil, "C18.restore-exit-lost", "restore #%d succeeded although the runtime exited during the hook", rs.n)
		}
	}
	// credentials
	for _, c := range credCalls {
		if c.Err != nil || !c.Done {
			continue
		}
		want := credWant[c]
		if !strings.HasPrefix(want, "=") {
			r.Check(c.Status == 404, "C18.credentials-leak", "credentials request with a %s token answered %d %s", strings.TrimPrefix(c.Tag, "cred-"), c.Status, summarize(c.Body))
			continue
		}
		var got struct{ AccessKeyId, SecretAccessKey, Token string }
		json.Unmarshal(c.Body, &got)
		r.Check(c.Status == 200, "C18.credentials-refused", "credentials request with the right token answered %d %s", c.Status, summarize(c.Body))
		exp := strings.TrimPrefix(want, "=")
		if got.AccessKeyId != exp && got.AccessKeyId == credPrev[c] && credHeld[c] {
			// the restore was descheduled before installing the new values: still legitimate as long as the runtime
			// had not been released from its restore poll when the request was made
			released := false
			if rt := rtActor(e, 1); rt != nil {
				for _, x := range rt.Calls {
					if x.Tag == "rt-restorenext" && x.Done && x.Err == nil && x.EndStep < c.StartStep && x.EndStep >= credSince[c] {
						released = true
					}
				}
			}
			if !released {
				r.Probe("credentials-during-held-restore")
				continue
			}
		}
		r.Check(got.AccessKeyId == exp, "C18.credentials-stale", "credentials endpoint served key %q, the most recent restore set %q", got.AccessKeyId, exp)
		if strings.HasPrefix(exp, "AKIARESTORE") {
			r.Check(got.SecretAccessKey == "secret-"+exp && got.Token == "session-"+exp, "C18.credentials-stale", "credentials endpoint served mixed values %+v for %s", got, exp)
		}
		r.Probe("credentials-served")
	}
}
