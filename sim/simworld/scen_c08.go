package simworld

import (
	"encoding/json"
	"fmt"
	"regexp"
	"sort"
	"strings"
	"time"
)

// C08: a reset leaves no trace of earlier generations (differential).
//
// Pass 1 (A): fresh -> prefix P (random history ending in a reset, with reordering, holds and late exit
// notifications) -> suffix S.  Pass 2 (B): fresh -> trivial prefix (one healthy invocation + explicit reset) -> the
// same suffix S.  The normalised traces of S must be equal.
func init() {
	Scenarios["C08"] = scenC08
}

type c08Suffix struct {
	modes   []string // per suffix invocation: ok | error | exit | stall
	subs    [][]string
	intExts []InternalSpec
	delay   time.Duration
	extLag  time.Duration // the suffix's extensions take this long before each further poll
	agent   string
}

var c08Sites = []string{"registrationServiceImpl).CancelFlows", "Server).Release", "reinitialize", "registrationServiceImpl).Clear", "gateImpl).Clear", "handleProcessExit", "setShuttingDown", "Server).Clear", "clearExitedChannel", "setRapidPhase", "setRuntimeState", "watchEvents", "Server).Reserve<lambda/rapidcore.(*Server).Invoke"}

func scenC08(r *Run, job *Job) {
	t := r.T
	// ---- header: everything both passes must agree on ----
	timeoutSec := 2 + t.Draw(2)
	T := time.Duration(timeoutSec) * time.Second
	nExt := t.Draw(3)
	var exts []ExtCfg
	for i := 0; i < nExt; i++ {
		exts = append(exts, ExtCfg{Name: fmt.Sprintf("e%d", i+1)})
	}
	var suf c08Suffix
	nS := 2 + t.Draw(2)
	for i := 0; i < nS; i++ {
		suf.modes = append(suf.modes, []string{"ok", "ok", "error", "exit", "stall"}[t.Draw(5)])
	}
	suf.modes[nS-1] = "ok"
	for i := 0; i < nExt; i++ {
		suf.subs = append(suf.subs, extSubSets[t.Draw(len(extSubSets))])
	}
	if t.Chance(1, 3) {
		suf.intExts = append(suf.intExts, InternalSpec{Name: "si1", Subs: intSubSets[t.Draw(2)]})
	}
	suf.delay = []time.Duration{0, 0, time.Second, 3 * time.Second}[t.Draw(4)]
	suf.agent = []string{"sim-runtime/1.0", "aws-lambda-sim/2 (feat)"}[t.Draw(2)]
	suf.extLag = []time.Duration{0, 300 * time.Millisecond}[t.Draw(2)]
	// ---- prefix description (only pass 1 acts on it, but both passes draw it) ----
	nP := 1 + t.Draw(3)
	pModes := make([]string, nP)
	for i := range pModes {
		pModes[i] = []string{"ok", "error", "exit", "stall", "initerror", "extcrash", "oversize", "explicit"}[t.Draw(8)]
	}
	pSubs := make([][]string, nExt)
	for i := range pSubs {
		pSubs[i] = extSubSets[t.Draw(len(extSubSets))]
	}
	pShut := []string{"", "", "exit1", "exiterror", "ignore"}[t.Draw(5)] // how the prefix's extensions take SHUTDOWN
	// a survivor: the first extension of the prefix outlives SIGKILL for longer than any reset waits (9 s + 2 s) and goes on
	// using the Extensions API with the identifier it was given, while the next generation is already serving
	survivor := t.Chance(1, 4)
	survivorPause := t.Draw(3)
	pInt := t.Chance(1, 3)
	pAgent := []string{"sim-runtime/1.0", strings.Repeat("very-long-user-agent-", 12) + " (a b c)"}[t.Draw(2)]
	reNum := []int{0, 1, 1}[t.Draw(3)]
	var evLat time.Duration
	if t.Chance(1, 2) {
		evLat = []time.Duration{20 * time.Millisecond, 900 * time.Millisecond, 1900 * time.Millisecond, 2500 * time.Millisecond, 4 * time.Second}[t.Draw(5)]
	}
	var killLat time.Duration
	if t.Chance(1, 3) {
		killLat = time.Duration(1+t.Draw(200)) * time.Millisecond
	}
	holdSite, holdNth, holdSteps := "", 0, 0
	// unlock-yield pass: every prefix holds somebody at an explicit unlock point, and across the emulator's timers
	uy := r.Sched != nil && r.Sched.UnlockYield
	if withHold := t.Chance(1, 2); withHold || uy {
		holdSite = c08Sites[t.Draw(len(c08Sites))]
		if t.Chance(1, 3) && len(r.Sites) > 0 {
			holdSite = r.Sites[t.Draw(len(r.Sites))]
		}
		holdNth, holdSteps = 1+t.Draw(6), 1+t.Draw(10)
		if strings.Contains(holdSite, "Server).Reserve<") {
			holdNth = 1 + holdNth%2
		}
	}
	trivial := r.Pass == 2
	if trivial {
		pModes, pSubs, pInt, pAgent, reNum, evLat, killLat, holdSite, pShut = []string{"ok", "explicit"}, suf.subs, false, suf.agent, 0, 0, 0, "", ""
		survivor = false
	}
	r.Desc = fmt.Sprintf("C08 T=%ds exts=%d prefix=%v pSubs=%v pInt=%v pShut=%q survivor=%v evLat=%s killLat=%s hold=%q/%d/%d reorder=%d/4 | suffix=%v subs=%v int=%d delay=%s extLag=%s", timeoutSec, nExt, pModes, pSubs, pInt, pShut, survivor, evLat, killLat, holdSite, holdNth, holdSteps, reNum, suf.modes, suf.subs, len(suf.intExts), suf.delay, suf.extLag)
	if r.Pass == 1 {
		r.Logf("%s", r.Desc)
	} else {
		r.Logf("C08 pass 2: trivial prefix, same suffix")
	}
	r.ReorderNum, r.ReorderDen = reNum, 4
	if holdSite != "" {
		r.MaxHoldTime = 5 * time.Second
		r.AddHold(holdSite, holdNth, holdSteps)
	}
	w := r.NewWorld(WorldCfg{TimeoutSec: timeoutSec, ExtFiles: ExtFiles(exts)}, job.Seed)
	e := w.NewEngine()
	e.Bound = time.Duration((nP+nS+2)*(timeoutSec+10)) * time.Second
	if strings.Contains(holdSite, "Server).Reserve<") || uy && holdSite != "" {
		// dispatch stall: the goroutine that reserves for the caller stays descheduled while the emulator's own timers
		// (the invoke timeout among them) fire, for up to half a second longer than the function timeout
		e.HoldAcrossTimers = true
		r.MaxHoldTime = T + 500*time.Millisecond
	}
	if survivor {
		e.Bound += time.Duration(nP+2) * 30 * time.Second
	}
	inSuffix := false
	sufStart := 0 // number of invocations made before the suffix
	var planModes []string
	e.BehavFor = func(p *Proc) *Behav {
		b := &Behav{ThenHealthy: true}
		if !inSuffix {
			b.EventLatency, b.KillLatency = evLat, killLat
		}
		if p.IsRT {
			b.Agent = pAgent
			if inSuffix {
				b.Agent = suf.agent
				b.Internals = append(b.Internals, suf.intExts...)
			} else if pInt {
				b.Internals = append(b.Internals, InternalSpec{Name: "pi1", Subs: []string{"INVOKE"}})
			}
			b.PerInv = func(inv *Invocation) *InvBehav {
				mode := ""
				if inSuffix && inv.N > sufStart {
					mode = suf.modes[inv.N-sufStart-1]
				} else if !inSuffix && inv.N <= len(planModes) {
					mode = planModes[inv.N-1]
				}
				k := inv.N
				if inSuffix {
					k = inv.N - sufStart
				}
				switch mode {
				case "ok", "":
					return &InvBehav{Body: []byte(fmt.Sprintf("resp-%d:%s", k, inv.Payload))}
				case "error":
					return &InvBehav{Mode: "error", ErrType: "Function.Sim", Body: []byte(fmt.Sprintf("ERR-%d", k))}
				case "exit":
					return &InvBehav{Mode: "exit", Exit: 1}
				case "stall":
					return &InvBehav{Mode: "stall"}
				case "oversize":
					return &InvBehav{Body: fillBody(MaxPayload+1, "x")}
				}
				return nil
			}
			if !inSuffix {
				for i, m := range planModes {
					if m == "initerror" && i == 0 && w.GenOrdinal(p.Gen) == 1 {
						b.Script = []Op{{Kind: "initerror", Arg: "Runtime.PrefixInit", Body: []byte(`{"errorMessage":"prefix init error","errorType":"Runtime.PrefixInit"}`)}, {Kind: "exit", N: 1}}
						b.ThenHealthy = false
					}
				}
			}
			return b
		}
		idx := 0
		fmt.Sscanf(p.ExtName, "e%d", &idx)
		if inSuffix {
			b.Subs = suf.subs[idx-1]
			if suf.extLag > 0 {
				b.Stalls = map[int]time.Duration{2: suf.extLag, 3: suf.extLag, 4: suf.extLag, 5: suf.extLag}
			}
		} else {
			b.Subs = pSubs[idx-1]
			b.OnShutdown = pShut
			if survivor && idx == 1 {
				b.KillLatency = 25 * time.Second                                   // the supervisor call gives up after 9 s, the wait for the exit after 2 more
				b.OnShutdown = []string{"poll", "ignore", "ignore"}[survivorPause] // keeps polling after SHUTDOWN, or sits still until the suffix
			}
			for i, m := range planModes {
				if m == "extcrash" && idx == 1 {
					b.DieDuringInv = i + 1
				}
			}
		}
		return b
	}
	// ---- prefix ----
	for _, m := range pModes {
		if m != "explicit" {
			planModes = append(planModes, m)
		}
	}
	explicit := false
	for _, m := range pModes {
		if m == "explicit" {
			explicit = true
		}
	}
	lastReset := pModes[len(pModes)-1]
	needExplicit := explicit || lastReset == "ok" || lastReset == "error" || lastReset == "oversize" || (lastReset == "extcrash" && nExt == 0) || lastReset == "initerror" && len(pModes) > 1
	nPre := 0
	for _, m := range pModes {
		if m != "explicit" {
			e.Plan = append(e.Plan, InvSpec{Payload: Tagged(fmt.Sprintf("pre%d", nPre+1), 16)})
			nPre++
		}
	}
	if nPre == 0 {
		e.Plan = append(e.Plan, InvSpec{Payload: Tagged("pre1", 16)})
		nPre = 1
	}
	e.Stuck = func() { r.Failf("C08.hang", "scenario did not finish within the bound (suffix=%v)", inSuffix) }
	e.Run()
	// the prefix must end in a reset: unless its last invocation was itself ended by one (timeout or failure outcome)
	if last := w.Invokes[len(w.Invokes)-1]; !needExplicit {
		ended := last.Call.Done && (last.Call.Status >= 500 || string(last.Call.Body) == timeoutText(timeoutSec))
		if !ended {
			needExplicit = true
		}
	}
	if needExplicit {
		done := false
		r.NextStep()
		r.Go(func() {
			w.Server.Reset("explicit-c08", 2000)
			done = true
		})
		r.Settle()
		// let the world react (kills, events) until the reset returns
		e.Plan = nil
		e.next = 0
		e.Done = func() bool { return done }
		e.Run()
		r.Check(done, "C08.hang", "explicit reset never returned")
		e.Done = nil
	}
	// ---- boundary: the suffix starts (possibly before late notifications of the prefix arrive) ----
	r.DisableHolds()
	r.Settle()
	if suf.delay > 0 {
		// time passes, pending notifications that fall due are delivered by the engine
		deadline := r.Now() + suf.delay
		e.Plan = nil
		e.next = 0
		e.Done = func() bool { return r.Now() >= deadline }
		e.Bound += suf.delay
		e.Extra = func() []action {
			if r.Now() < deadline {
				return nil
			}
			return nil
		}
		for r.Now() < deadline {
			acts, due, hasDue := e.enabled()
			if len(acts) > 0 {
				acts[0].do()
				continue
			}
			wait := deadline - r.Now()
			if hasDue && due-r.Now() < wait {
				wait = due - r.Now()
			}
			r.Sleep(wait)
		}
		e.Done = nil
		e.Extra = nil
	}
	r.ReorderNum = 0 // the suffix runs under the natural policy in both passes
	inSuffix = true
	sufStart = len(w.Invokes)
	t0 := r.Now()
	step0 := r.Step
	e.Plan = nil
	e.next = 0
	for i := 0; i < nS; i++ {
		e.Plan = append(e.Plan, InvSpec{Payload: Tagged(fmt.Sprintf("suf%d", i+1), 16)})
	}
	e.lastDone = r.Now()
	if survivor {
		// the survivor of the prefix uses its old identifier once more, at a moment when nothing else is going on
		// in the suffix (the runtime works, or the extensions take their time)
		polled := false
		e.Extra = func() []action {
			if polled {
				return nil
			}
			busy := false
			for _, inv := range w.Invokes[sufStart:] {
				if inv.Dispatched && !inv.Call.Done {
					busy = true
				}
			}
			if !busy {
				return nil
			}
			for _, a := range e.Actors() {
				a := a
				if !a.IsRT && !a.Internal && a.ExtName == "e1" && a.P.ExecStep <= step0 && a.P.Alive && !a.Busy() && a.ExtID != "" {
					return []action{{"survivor poll " + a.Who, func() {
						polled = true
						r.NextStep()
						r.Fault("survivor-poll-with-old-identifier")
						a.ExtNext()
						r.Settle()
					}}}
				}
			}
			return nil
		}
	}
	e.Run()
	e.Extra = nil
	// classification for the known-findings file: a request of a prefix process was still being handled (goroutine held
	// inside the API server) when that process died and the reset completed
	if r.Pass == 1 {
		r.Known = zombieAPIRequest(r, w)
	}
	// ---- normalised trace of the suffix ----
	trace := c08Trace(r, w, e, sufStart, step0, t0, T)
	if r.Pass == 1 {
		r.Aux = trace
		r.WantSecond = true
		r.NonTriv = true
		return
	}
	r.Known = r.Other.Known
	a := r.Other.Aux
	n := len(a)
	if len(trace) < n {
		n = len(trace)
	}
	for i := 0; i < n; i++ {
		if a[i] != trace[i] {
			r.Failf("C08.suffix-differs", "after the random prefix the suffix behaves differently from the same suffix after a trivial prefix; first difference at line %d:\n   after prefix : %s\n   after trivial: %s", i+1, a[i], trace[i])
		}
	}
	if len(a) != len(trace) {
		extra := ""
		if len(a) > n {
			extra = "after prefix has extra: " + a[n]
		} else {
			extra = "after trivial has extra: " + trace[n]
		}
		r.Failf("C08.suffix-differs", "suffix traces differ in length (%d vs %d); %s", len(a), len(trace), extra)
	}
	r.NonTriv = true
}

var uuidFind = regexp.MustCompile(`[0-9a-f]{8}-[0-9a-f]{4}-[0-9a-f]{4}-[0-9a-f]{4}-[0-9a-f]{12}`)

// c08Trace renders what the suffix made observable, with request ids renamed to first-occurrence indices,
// generation numbers renamed to ordinals counted from the suffix start and times relative to the suffix start.
func c08Trace(r *Run, w *World, e *Engine, sufStart, step0 int, t0, T time.Duration) []string {
	var out []string
	ids := map[string]string{}
	norm := func(s string) string {
		return uuidFind.ReplaceAllStringFunc(s, func(u string) string {
			if n, ok := ids[u]; ok {
				return n
			}
			n := fmt.Sprintf("ID%d", len(ids)+1)
			ids[u] = n
			return n
		})
	}
	rel := func(d time.Duration) string { return fmtDur(d - t0) }
	// generation ordinals among processes started in the suffix
	gens := map[int]int{}
	for _, q := range w.Sup.Requests() {
		if q.Kind == "exec" && q.Step > step0 {
			g := genOf(q.Name)
			if _, ok := gens[g]; !ok {
				gens[g] = len(gens) + 1
			}
		}
	}
	gname := func(name string) string {
		g := genOf(name)
		o, ok := gens[g]
		if !ok {
			return ""
		}
		i := strings.LastIndex(name, "-")
		return fmt.Sprintf("%s-G%d", name[:i], o)
	}
	for _, inv := range w.Invokes[sufStart:] {
		c := inv.Call
		body := string(c.Body)
		if len(body) > 200 {
			body = fmt.Sprintf("%s...(%d bytes)", body[:64], len(body))
		}
		out = append(out, norm(fmt.Sprintf("caller %d: arrival=%s status=%d body=%q end=%s", inv.N-sufStart, rel(inv.ArrivalAt), c.Status, body, rel(c.EndAt))))
	}
	for _, a := range e.Actors() {
		if _, ok := gens[a.P.Gen]; !ok {
			continue
		}
		who := a.Who
		if i := strings.Index(who, "@"); i >= 0 {
			who = who[:i] + fmt.Sprintf("@G%d", gens[a.P.Gen])
		}
		for _, c := range a.Calls {
			if !c.Done {
				out = append(out, norm(fmt.Sprintf("%s call %s %s pending", who, c.Method, pathNoID(c.Path))))
				continue
			}
			line := fmt.Sprintf("%s call %s %s -> %d at %s", who, c.Method, c.Path, c.Status, rel(c.EndAt))
			if c.Err != nil {
				line = fmt.Sprintf("%s call %s %s -> error at %s", who, c.Method, c.Path, rel(c.EndAt))
			}
			switch c.Tag {
			case "rt-next":
				if c.Status == 200 {
					dl := Delivery{Hdr: flat(c.Hdr)}.DeadlineMs()
					line += fmt.Sprintf(" body=%q deadline=%s arn=%s", c.Body, rel(time.Duration(dl)*time.Millisecond-946684800*time.Second), c.Hdr.Get("Lambda-Runtime-Invoked-Function-Arn"))
				}
			case "ext-next":
				if c.Status == 200 {
					var ev ExtEvent
					jsonUnmarshal(c.Body, &ev)
					line += fmt.Sprintf(" event=%s id=%s reason=%s deadline=%s", ev.EventType, ev.RequestID, ev.ShutdownReason, rel(time.Duration(ev.DeadlineMs)*time.Millisecond-946684800*time.Second))
				}
			default:
				if c.Status >= 400 {
					line += fmt.Sprintf(" body=%q", c.Body)
				}
			}
			out = append(out, norm(line))
		}
	}
	var sup []string
	for _, q := range w.SupLog() {
		if q.Step <= step0 {
			continue
		}
		n := gname(q.Name)
		if n == "" {
			n = "OLD:" + q.Kind // a request about a process of the prefix: must not happen in the suffix
		}
		sup = append(sup, fmt.Sprintf("sup %s %s err=%q at %s", q.Kind, n, q.Err, rel(q.At)))
	}
	out = append(out, sup...)
	var evs []string
	for _, ev := range w.Ev.All() {
		if ev.Step <= step0 {
			continue
		}
		x := ev.Ext
		sort.Strings(x.Subscriptions)
		evs = append(evs, norm(fmt.Sprintf("platform %s phase=%s status=%s err=%s req=%s ext=%s/%s/%v/%s at %s", ev.Kind, ev.Phase, ev.Status, ev.ErrorType, ev.RequestID, x.AgentName, x.State, x.Subscriptions, x.ErrorType, rel(ev.At))))
	}
	out = append(out, evs...)
	return out
}

func pathNoID(p string) string { return uuidFind.ReplaceAllString(p, "ID") }

func jsonUnmarshal(b []byte, v interface{}) { _ = json.Unmarshal(b, v) }

// zombieAPIRequest classifies runs of the "zombie API request" family for the known-findings file: a goroutine was
// held inside the API server (any frame of its stack in lambda/rapi: middleware, handlers - not lambda/rapid or
// lambda/rapidcore) while a process died, and released afterwards -
// i.e. a request of a dead process was still being handled when (or after) its generation was reset.
func zombieAPIRequest(r *Run, w *World) string {
	for _, h := range r.Holds {
		if h.W == nil || !h.Released || !(h.W.StackHas("lambda/rapi/") || h.W.StackHas("lambda/rapi.")) {
			continue
		}
		for _, p := range w.Sup.All() {
			if !p.Alive && p.DeathStep >= h.AtStep {
				fn := h.W.Sig
				if i := strings.Index(fn, "<"); i > 0 {
					fn = fn[:i]
				}
				return "zombie-api-request@" + fn
			}
		}
	}
	return ""
}
