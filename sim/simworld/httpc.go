package simworld

import (
	"bufio"
	"bytes"
	"fmt"
	"io"
	"net"
	"net/http"
	"sort"
	"strings"
	"time"

	"go.amzn.com/verifsim/simnet"
	"go.amzn.com/verifsim/simsync"
)

// Call is one HTTP request issued by a simulated party.
type Call struct {
	Seq     int
	Who     string
	Method  string
	Path    string
	ReqHdr  map[string]string
	ReqBody []byte

	fin bool // set by the client goroutine (under Run.mu)

	Done    bool // stamped by the driver at the next quiescent point
	Status  int
	Hdr     http.Header
	Body    []byte
	Err     error
	SentAll bool

	StartStep, EndStep int
	StartAt, EndAt     time.Duration

	// body fault plan
	StallAfter int // >0: send only this many body bytes, then wait for Resume/close
	resume     chan bool
	Tag        string

	// reference-register expectation recorded by the engine when the call was issued
	Judged       bool
	ExpectAccept bool
	Pair         *Call // the concurrent duplicate of this submission (exactly one of the two may be accepted)

	// slow reader: after SlowAfter body bytes the client pauses for SlowPause (fake time) before reading on
	SlowAfter int
	SlowPause time.Duration
	GotStatus bool // the status line and headers have arrived (set by the client goroutine)
}

func (c *Call) String() string {
	if !c.fin {
		return fmt.Sprintf("#%d %s %s %s -> (pending)", c.Seq, c.Who, c.Method, c.Path)
	}
	if c.Err != nil {
		return fmt.Sprintf("#%d %s %s %s -> error %v", c.Seq, c.Who, c.Method, c.Path, errClass(c.Err))
	}
	return fmt.Sprintf("#%d %s %s %s -> %d %s", c.Seq, c.Who, c.Method, c.Path, c.Status, summarize(c.Body))
}

func errClass(err error) string {
	s := err.Error()
	switch {
	case strings.Contains(s, "EOF"):
		return "EOF"
	case strings.Contains(s, "closed"):
		return "closed"
	}
	return s
}

func summarize(b []byte) string {
	if len(b) <= 96 {
		return fmt.Sprintf("%q", b)
	}
	return fmt.Sprintf("%q...(%d bytes)", b[:64], len(b))
}

// Pending reports whether the call has not completed (as of the last quiescent point).
func (c *Call) Pending() bool { return !c.Done }

// OK reports whether the call completed with the given status.
func (c *Call) Is(status int) bool { return c.Done && c.Err == nil && c.Status == status }

// Conn is a keep-alive client connection of a simulated party.
type Conn struct {
	r      *Run
	c      net.Conn
	br     *bufio.Reader
	addr   string
	closed bool

	slowAfter int
	slowPause time.Duration
}

// Dial opens a client connection to a simulated listener.
func (r *Run) Dial(addr string) *Conn {
	c, err := simnet.Dial(addr)
	if err != nil {
		r.Troublef("dial %s: %v", addr, err)
	}
	return &Conn{r: r, c: c, br: bufio.NewReaderSize(c, 16<<10), addr: addr}
}

// DialCap is Dial with a bounded receive buffer (bytes) at this end: the peer's writes block beyond it.
func (r *Run) DialCap(addr string, recvCap int) *Conn {
	c, err := simnet.DialCap(addr, recvCap)
	if err != nil {
		r.Troublef("dial %s: %v", addr, err)
	}
	return &Conn{r: r, c: c, br: bufio.NewReaderSize(c, 16<<10), addr: addr}
}

func (cn *Conn) Close() {
	if !cn.closed {
		cn.closed = true
		cn.c.Close()
	}
}

func buildRequest(method, path string, hdr map[string]string, bodyLen int, hasBody bool) []byte {
	var b bytes.Buffer
	fmt.Fprintf(&b, "%s %s HTTP/1.1\r\nHost: sim\r\n", method, path)
	keys := make([]string, 0, len(hdr))
	for k := range hdr {
		keys = append(keys, k)
	}
	sort.Strings(keys)
	for _, k := range keys {
		fmt.Fprintf(&b, "%s: %s\r\n", k, hdr[k])
	}
	if hasBody || method == "POST" || method == "PUT" {
		fmt.Fprintf(&b, "Content-Length: %d\r\n", bodyLen)
	}
	b.WriteString("\r\n")
	return b.Bytes()
}

// Start issues a request on the connection in its own goroutine. The driver
// must Settle afterwards; the call is Done once the response was read.
func (cn *Conn) Start(who, method, path string, hdr map[string]string, body []byte) *Call {
	return cn.StartPlan(who, method, path, hdr, body, 0)
}

// StartSlow is Start by a client that pauses for pause after the first after bytes of the response body.
func (cn *Conn) StartSlow(who, method, path string, hdr map[string]string, body []byte, after int, pause time.Duration) *Call {
	cn.slowAfter, cn.slowPause = after, pause
	defer func() { cn.slowPause = 0 }()
	return cn.StartPlan(who, method, path, hdr, body, 0)
}

// StartPlan is Start with a body fault plan: stallAfter>0 sends only that many
// body bytes and then waits until Resume (send the rest) or Abort (close).
func (cn *Conn) StartPlan(who, method, path string, hdr map[string]string, body []byte, stallAfter int) *Call {
	r := cn.r
	r.mu.Lock()
	call := &Call{Seq: len(r.calls) + 1, Who: who, Method: method, Path: path, ReqHdr: hdr, ReqBody: body,
		StartStep: r.Step, StartAt: r.Now(), StallAfter: stallAfter, SlowAfter: cn.slowAfter, SlowPause: cn.slowPause}
	if stallAfter > 0 {
		call.resume = make(chan bool, 1)
	}
	r.calls = append(r.calls, call)
	r.mu.Unlock()
	r.Logf("start %s", call.String())
	finish := func(err error) {
		r.mu.Lock()
		call.Err = err
		call.fin = true
		r.mu.Unlock()
	}
	r.Go(func() {
		head := buildRequest(method, path, hdr, len(body), body != nil)
		if _, err := cn.c.Write(head); err != nil {
			finish(err)
			return
		}
		if stallAfter > 0 && stallAfter < len(body) {
			if _, err := cn.c.Write(body[:stallAfter]); err != nil {
				finish(err)
				return
			}
			simsync.Signal()
			if cont := <-call.resume; !cont {
				cn.Close()
				finish(io.ErrUnexpectedEOF)
				return
			}
			if _, err := cn.c.Write(body[stallAfter:]); err != nil {
				finish(err)
				return
			}
		} else if len(body) > 0 {
			if _, err := cn.c.Write(body); err != nil {
				finish(err)
				return
			}
		}
		r.mu.Lock()
		call.SentAll = true
		r.mu.Unlock()
		resp, err := http.ReadResponse(cn.br, &http.Request{Method: method})
		if err != nil {
			finish(err)
			return
		}
		r.mu.Lock()
		call.GotStatus = true
		call.Status = resp.StatusCode
		r.mu.Unlock()
		var data []byte
		if call.SlowPause > 0 {
			simsync.Signal()
			head := make([]byte, call.SlowAfter)
			n, rerr := io.ReadFull(resp.Body, head)
			data = append(data, head[:n]...)
			if rerr == nil {
				time.Sleep(call.SlowPause)
				var rest []byte
				rest, err = io.ReadAll(resp.Body)
				data = append(data, rest...)
			} else if rerr != io.EOF && rerr != io.ErrUnexpectedEOF {
				err = rerr
			}
		} else {
			data, err = io.ReadAll(resp.Body)
		}
		resp.Body.Close()
		r.mu.Lock()
		call.Status = resp.StatusCode
		call.Hdr = resp.Header
		call.Body = data
		r.mu.Unlock()
		if resp.Close {
			cn.Close()
		}
		finish(err)
	})
	return call
}

// Resume lets a stalled body continue (cont=true) or closes the connection.
func (c *Call) Resume(cont bool) {
	if c.resume != nil {
		c.resume <- cont
	}
}
