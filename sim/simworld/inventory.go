package simworld

import (
	"fmt"
	"sort"
	"sync"
	"testing"
	"time"
)

// Lock-site inventory: learnt from the current tree by one fixed, natural-policy run per worker process
// (healthy invocation, failure reset, timeout reset). Hold targets are drawn from it by index, so edits to the
// tree move the targets with them and every process computes the same list.
var (
	inventoryOnce   sync.Once
	inventory       []string
	inventoryPUOnce sync.Once
	inventoryPU     []string
)

// InventoryPU returns the sorted signatures of the explicit unlock points (an Unlock / RUnlock statement after which
// the function goes on) the same fixed run reaches in the unlock-yield pass.
func InventoryPU(t *testing.T) []string {
	inventoryPUOnce.Do(func() {
		res := Execute(t, &Job{ID: -2, Prop: "INVENTORY", Seed: 1, WantLog: true, Knobs: map[string]int{"uyield": 1}})
		for s := range res.PUHits {
			inventoryPU = append(inventoryPU, s)
		}
		sort.Strings(inventoryPU)
	})
	return inventoryPU
}

func init() {
	Scenarios["INVENTORY"] = func(r *Run, job *Job) {
		exts := []ExtCfg{{Name: "e1", Subs: []string{"INVOKE", "SHUTDOWN"}}, {Name: "i1", Internal: true, Subs: []string{"INVOKE"}}}
		w := r.NewWorld(WorldCfg{TimeoutSec: 2, ExtFiles: ExtFiles(exts)}, 1)
		e := w.NewEngine()
		e.Bound = 60 * time.Second
		e.BehavFor = BehavForExts(exts, func(p *Proc, b *Behav) {
			if p.IsRT {
				b.PerInv = func(inv *Invocation) *InvBehav {
					switch inv.N {
					case 2:
						return &InvBehav{Mode: "exit", Exit: 1}
					case 4:
						return &InvBehav{Mode: "stall"}
					case 6:
						return &InvBehav{Mode: "error", ErrType: "Function.X", Body: []byte("e")}
					}
					return nil
				}
			}
		})
		for i := 0; i < 7; i++ {
			e.Plan = append(e.Plan, InvSpec{Payload: []byte(fmt.Sprintf("inv%d", i))})
		}
		e.Stuck = func() {}
		e.Run()
	}
}

// Inventory returns the sorted lock-site signatures of the current tree.
func Inventory(t *testing.T) []string {
	inventoryOnce.Do(func() {
		res := Execute(t, &Job{ID: -1, Prop: "INVENTORY", Seed: 1, WantLog: true})
		for s := range res.SigHits {
			inventory = append(inventory, s)
		}
		sort.Strings(inventory)
	})
	return inventory
}
