package simworld

import (
	"bytes"
	"errors"
	"fmt"
	"os"
	"strings"
	"time"
)

// C06: exit / reported failure => right error, then recovery (fault enumeration).
func init() {
	Scenarios["C06"] = scenC06
}

type c06Cell struct {
	nExt  int
	party int // 0 = runtime, k = extension k
	point int
	kind  int // exit kind: 0 = status 0, 1 = status n>0, 2 = signal; for launch failure: 0 = EACCES, 1 = ENOENT, 2 = generic
}

// C06Cells enumerates the matrix.
func c06Cells() []c06Cell {
	var cells []c06Cell
	for nExt := 0; nExt <= 2; nExt++ {
		for point := 0; point < 7; point++ {
			for kind := 0; kind < 3; kind++ {
				cells = append(cells, c06Cell{nExt, 0, point, kind})
			}
		}
		for ext := 1; ext <= nExt; ext++ {
			for point := 0; point < 6; point++ {
				for kind := 0; kind < 3; kind++ {
					cells = append(cells, c06Cell{nExt, ext, point, kind})
				}
			}
		}
	}
	return cells
}

var rtPointNames = []string{"before-first-poll", "after-init-error", "after-poll", "after-response", "idle", "inline-reinit", "launch-failure"}
var extPointNames = []string{"before-register", "after-register", "after-first-event", "after-init-error", "after-exit-error", "launch-failure"}

func exitCode(kind int, t *Tape) int {
	switch kind {
	case 0:
		return 0
	case 1:
		return 1 + t.Draw(3)
	default:
		return []int{KillSignal, -11, -6}[t.Draw(3)]
	}
}

// GenOrdinal maps a process generation number to its incarnation ordinal (1, 2, ...), counting every
// generation for which the emulator asked the supervisor to start something (successfully or not).
func (w *World) GenOrdinal(gen int) int {
	seen := map[int]int{}
	for _, q := range w.Sup.Requests() {
		if q.Kind != "exec" {
			continue
		}
		g := genOf(q.Name)
		if _, ok := seen[g]; !ok {
			seen[g] = len(seen) + 1
		}
	}
	if o, ok := seen[gen]; ok {
		return o
	}
	return len(seen) + 1 // a generation not seen yet
}

func scenC06(r *Run, job *Job) {
	t := r.T
	cells := c06Cells()
	ci, ok := job.Knobs["cell"]
	if !ok {
		ci = t.Draw(len(cells))
	}
	cell := cells[ci%len(cells)]
	r.Probe(fmt.Sprintf("cell:%03d", ci%len(cells)))
	var exts []ExtCfg
	for i := 0; i < cell.nExt; i++ {
		subs := extSubSets[t.Draw(len(extSubSets))]
		if cell.party == i+1 && cell.point == 2 {
			subs = extSubSets[t.Draw(2)] // must receive an event: INVOKE subscriber
		}
		exts = append(exts, ExtCfg{Name: fmt.Sprintf("e%d", i+1), Subs: subs})
	}
	switch t.Draw(3) {
	case 1:
		r.ReorderNum, r.ReorderDen = 1, 4
	case 2:
		r.ReorderNum, r.ReorderDen = 1, 2
	}
	timeout := 30
	if t.Chance(1, 4) {
		// the platform's own failure report (the goroutine that answers the caller with the error and reports the
		// invocation done) is descheduled at one of its steps
		r.AddHold([]string{"getCachedInitErrorResponse", "trySendDefaultErrorResponse", "Server).SendErrorResponse"}[t.Draw(3)], 1+t.Draw(2), 1+t.Draw(3))
	}
	w := r.NewWorld(WorldCfg{TimeoutSec: timeout, ExtFiles: ExtFiles(exts)}, job.Seed)
	e := w.NewEngine()
	e.Bound = 200 * time.Second
	switch t.Draw(3) {
	case 1:
		e.PermNum, e.PermDen = 1, 3
	case 2:
		e.PermNum, e.PermDen = 2, 3
	}
	code := exitCode(cell.kind, t)
	initErrBody := []byte(`{"errorMessage":"init failed <c06>","errorType":"Runtime.InitBoom","stackTrace":[]}`)
	var desc string
	exitErrEarly := t.Chance(1, 2)
	if cell.party == 0 {
		desc = "runtime " + rtPointNames[cell.point]
		if cell.point == 6 {
			// the runtime cannot be launched at all (entry point missing, not executable, not a program): no process and
			// no exit notification, in any generation
			errs := []error{os.ErrPermission, os.ErrNotExist, errors.New("exec format error")}
			w.Sup.ExecFail["runtime-"] = errs[cell.kind]
		}
	} else {
		desc = fmt.Sprintf("ext e%d %s", cell.party, extPointNames[cell.point])
		if cell.point == 5 {
			errs := []error{os.ErrPermission, os.ErrNotExist, errors.New("exec format error")}
			w.Sup.ExecFail[fmt.Sprintf("extension-e%d-1\x00", cell.party)] = errs[cell.kind]
		}
	}
	// a history: after the recovery, the runtime serving the third invocation exits silently in the middle of it
	// (the answer must name that fault, not anything remembered from the first one)
	second := t.Chance(1, 3)
	e.BehavFor = BehavForExts(exts, func(p *Proc, b *Behav) {
		ord := w.GenOrdinal(p.Gen)
		if second && p.IsRT {
			b.PerInv = func(inv *Invocation) *InvBehav {
				if inv.N == 3 {
					return &InvBehav{Mode: "exit", Exit: 3}
				}
				return nil
			}
		}
		if cell.party == 0 && p.IsRT {
			switch {
			case cell.point == 0 && ord == 1:
				b.Script, b.ThenHealthy = []Op{{Kind: "exit", N: code}}, false
			case cell.point == 1 && ord == 1:
				b.Script, b.ThenHealthy = []Op{{Kind: "initerror", Body: initErrBody, Arg: "Runtime.InitBoom"}, {Kind: "exit", N: code}}, false
			case cell.point == 2 && ord == 1:
				b.Script, b.ThenHealthy = []Op{{Kind: "next"}, {Kind: "exit", N: code}}, false
			case cell.point == 3 && ord == 1:
				b.Script, b.ThenHealthy = []Op{{Kind: "next"}, {Kind: "response"}, {Kind: "exit", N: code}}, false
			case cell.point == 4 && ord == 1:
				b.Script, b.ThenHealthy = []Op{{Kind: "next"}, {Kind: "response"}, {Kind: "next-die", N: code}}, false
			case cell.point == 5 && ord == 1:
				b.Script, b.ThenHealthy = []Op{{Kind: "next"}, {Kind: "exit", N: 1}}, false
			case cell.point == 5 && ord == 2:
				b.Script, b.ThenHealthy = []Op{{Kind: "exit", N: code}}, false
			}
		}
		if cell.party > 0 && !p.IsRT && p.ExtName == fmt.Sprintf("e%d", cell.party) && ord == 1 {
			switch cell.point {
			case 0:
				b.Script, b.ThenHealthy = []Op{{Kind: "exit", N: code}}, false
			case 1:
				b.Script, b.ThenHealthy = []Op{{Kind: "register"}, {Kind: "exit", N: code}}, false
			case 2:
				b.Script, b.ThenHealthy = []Op{{Kind: "register"}, {Kind: "extnext"}, {Kind: "exit", N: code}}, false
			case 3:
				b.Script, b.ThenHealthy = []Op{{Kind: "register"}, {Kind: "extiniterror"}, {Kind: "exit", N: code}}, false
			case 4:
				if exitErrEarly || !(ExtCfg{Subs: b.Subs}).Has("INVOKE") {
					b.Script, b.ThenHealthy = []Op{{Kind: "register"}, {Kind: "extexiterror"}, {Kind: "exit", N: code}}, false
				} else {
					b.Script, b.ThenHealthy = []Op{{Kind: "register"}, {Kind: "extnext"}, {Kind: "extexiterror"}, {Kind: "exit", N: code}}, false
				}
			}
		}
	})
	for i := 0; i < 4; i++ {
		e.Plan = append(e.Plan, InvSpec{Payload: Tagged(fmt.Sprintf("ev%d", i+1), 24)})
	}
	if second {
		desc += " + silent exit during invocation 3"
	}
	r.Desc = fmt.Sprintf("C06 cell=%d %s exit=%d exts=%v reorder=%d/%d perm=%d/%d", ci%len(cells), desc, code, exts, r.ReorderNum, r.ReorderDen, e.PermNum, e.PermDen)
	r.Logf("%s", r.Desc)
	e.Stuck = func() {
		for _, inv := range w.Invokes {
			r.Check(inv.Call.Done, "C06.hang", "invocation %d was never answered (arrived %s, now %s)", inv.N, fmtDur(inv.ArrivalAt), fmtDur(r.Now()))
		}
		r.Failf("C06.hang", "plan did not finish within the bound")
	}
	e.Run()
	judgeHistory(r, w, e, "C06", judgeOpts{initErrBody: initErrBody})
}

// ---- the outcome oracle shared by C05/C06/C07/C01 ----

type judgeOpts struct {
	initErrBody []byte
	timeoutOK   bool // timeouts are expected in this scenario
}

// faultRec is a fault as the emulator got to see it.
type faultRec struct {
	step   int
	typ    string // documented errorType
	gen    int
	inInit bool
}

func timeoutText(sec int) string { return fmt.Sprintf("Task timed out after %d.00 seconds", sec) }

// genInitDoneStep returns the step at which generation gen completed its initialisation (first delivery to its runtime), 0 if never.
func genInitDoneStep(e *Engine, gen int) int {
	rt := rtActor(e, gen)
	if rt == nil || len(rt.Deliveries) == 0 {
		return 0
	}
	return rt.Deliveries[0].Step
}

// collectFaults lists, in delivery order, the faults the emulator was told about.
func collectFaults(w *World, e *Engine) []faultRec {
	var fs []faultRec
	// reports by extensions
	reported := map[*Proc]string{}
	for _, a := range e.Actors() {
		for _, c := range a.Calls {
			if !c.Done || c.Status != 202 {
				continue
			}
			switch c.Tag {
			case "ext-initerror":
				fs = append(fs, faultRec{step: c.EndStep, typ: "Extension.InitError", gen: a.P.Gen})
				if !a.Internal {
					reported[a.P] = "init"
				}
			case "ext-exiterror":
				fs = append(fs, faultRec{step: c.EndStep, typ: "Extension.ExitError", gen: a.P.Gen})
				if !a.Internal {
					reported[a.P] = "exit"
				}
			}
		}
	}
	for _, q := range w.Sup.Requests() {
		if q.Kind == "exec" && q.Err != "" {
			typ := "Extension.LaunchError"
			if strings.HasPrefix(q.Name, "runtime-") {
				typ = "Runtime.InvalidEntrypoint"
			}
			fs = append(fs, faultRec{step: q.Step, typ: typ, gen: genOf(q.Name)})
		}
	}
	for _, p := range w.Sup.All() {
		if !p.EventSent || p.KillReq > 0 && p.KillStep <= p.DeathStep || p.TermReq > 0 && p.TermStep <= p.DeathStep {
			continue // killed/terminated by the emulator: not a fault
		}
		typ := "Extension.Crash"
		if p.IsRT {
			typ = "Runtime.ExitError"
		} else if reported[p] != "" {
			continue // the report was the fault
		}
		fs = append(fs, faultRec{step: p.EventStep, typ: typ, gen: p.Gen})
	}
	// stable sort by step
	for i := 1; i < len(fs); i++ {
		for j := i; j > 0 && fs[j].step < fs[j-1].step; j-- {
			fs[j], fs[j-1] = fs[j-1], fs[j]
		}
	}
	return fs
}

// genOfInvocation returns the generation whose runtime got the invocation, or the latest generation started before it was answered.
func genServing(w *World, e *Engine, inv *Invocation) int {
	if inv.Dispatched {
		for _, a := range e.Actors() {
			if a.IsRT {
				for _, d := range a.Deliveries {
					if d.Inv == inv {
						return a.P.Gen
					}
				}
			}
		}
	}
	gen := 0
	for _, p := range w.Sup.All() {
		if p.ExecStep <= inv.Call.EndStep && p.Gen > gen {
			gen = p.Gen
		}
	}
	return gen
}

// judgeHistory checks every invocation of the run against the failure table (DESIGN appendix B) and the recovery obligations.
func judgeHistory(r *Run, w *World, e *Engine, prop string, o judgeOpts) {
	faults := collectFaults(w, e)
	for _, f := range faults {
		r.Logf("fault %s gen=%d step=%d", f.typ, f.gen, f.step)
	}
	timeoutBody := timeoutText(w.Cfg.TimeoutSec)
	prevFailed := false
	prevFaultStep := 0
	for i, inv := range w.Invokes {
		r.Check(inv.Call.Done, prop+".hang", "invocation %d was never answered", inv.N)
		r.Check(inv.Call.Err == nil, prop+".caller-connection", "invocation %d: caller connection failed: %v", inv.N, inv.Call.Err)
		st, body := inv.Call.Status, inv.Call.Body
		// faults visible to the emulator between arrival (or the end of the previous invocation) and the answer
		lo := inv.ArrivalStep
		if i > 0 {
			lo = w.Invokes[i-1].Call.EndStep + 1
		}
		var mine []faultRec
		for _, f := range faults {
			if f.step >= lo && f.step <= inv.Call.EndStep {
				mine = append(mine, f)
			}
		}
		isTimeout := st == 200 && string(body) == timeoutBody
		if isTimeout && !o.timeoutOK && len(mine) == 0 {
			r.Failf(prop+".unexpected-timeout", "invocation %d timed out although no party stalled", inv.N)
		}
		if isTimeout && !o.timeoutOK && len(mine) > 0 {
			// no party of this scenario ever stalls: an invocation hit by a fault that ends in the function timeout was
			// left hanging instead of being answered with the failure
			r.Failf(prop+".left-hanging", "invocation %d hit by %s (step %d) was left hanging until the function timeout (answered at step %d)", inv.N, mine[0].typ, mine[0].step, inv.Call.EndStep)
		}
		if len(mine) == 0 && !isTimeout {
			// healthy invocation: judged exactly
			r.Check(st == 200, prop+".healthy-status", "invocation %d (no fault): status %d body %s", inv.N, st, summarize(body))
			r.Check(inv.AnswerKind != "" && bytes.Equal(body, inv.Answered), prop+".healthy-body", "invocation %d (no fault): body %s differs from the runtime's %s", inv.N, summarize(body), summarize(inv.Answered))
			if prevFailed {
				// served by processes started after the fault that failed the previous invocation
				gen := genServing(w, e, inv)
				for _, p := range w.Sup.All() {
					if p.Gen == gen {
						r.Check(p.ExecStep > prevFaultStep, prop+".stale-process", "invocation %d after a failure was served by %s started at step %d (the failure happened at step %d)", inv.N, p.Name, p.ExecStep, prevFaultStep)
					}
				}
				r.NonTriv = true
			}
			prevFailed = false
			continue
		}
		if isTimeout {
			prevFailed = true
			prevFaultStep = inv.Call.EndStep - 1
			continue // judged by C05 rules elsewhere
		}
		// faulty invocation
		first := mine[0]
		r.Check(st >= 500 && st <= 599, prop+".failure-status", "invocation %d hit by %s: status %d body %s", inv.N, first.typ, st, summarize(body))
		switch {
		case inv.AnswerKind == "response" || inv.AnswerKind == "error":
			r.Check(bytes.Equal(body, inv.Answered), prop+".body-after-response", "invocation %d: runtime's submission had been accepted, caller got %s instead of %s", inv.N, summarize(body), summarize(inv.Answered))
		case rtReportedInitError(e, first.gen, inv.Call.EndStep) != nil:
			want := rtReportedInitError(e, first.gen, inv.Call.EndStep)
			r.Check(bytes.Equal(body, want), prop+".body-init-error", "invocation %d: runtime reported init error %s, caller got %s", inv.N, summarize(want), summarize(body))
		case genInitDoneStep(e, first.gen) != 0 && genInitDoneStep(e, first.gen) <= first.step:
			eb, ok := ParseErr(body)
			r.Check(ok, prop+".body-json", "invocation %d hit by %s after initialisation: body is not a JSON error: %s", inv.N, first.typ, summarize(body))
			okType := false
			for _, f := range mine {
				if f.step == first.step && f.typ == eb.ErrorType {
					okType = true // faults delivered in the same step: either may be first
				}
			}
			r.Check(okType, prop+".first-fault", "invocation %d: first fault was %s (step %d) but the error names %q", inv.N, first.typ, first.step, eb.ErrorType)
		default:
			// fault during an initialisation the runtime did not report: status only
			r.Probe("unspecified-body")
		}
		// teardown before the answer
		for _, p := range w.Sup.All() {
			if p.Gen <= first.gen && p.ExecStep <= inv.Call.EndStep {
				r.Check(!p.Alive && p.DeathStep <= inv.Call.EndStep, prop+".teardown", "invocation %d answered at step %d while %s (generation %d) was still alive", inv.N, inv.Call.EndStep, p.Name, p.Gen)
			}
		}
		r.NonTriv = true
		prevFailed = true
		prevFaultStep = first.step
	}
}

func genHadFault(fs []faultRec, gen int) bool {
	for _, f := range fs {
		if f.gen == gen {
			return true
		}
	}
	return false
}

// rtReportedInitError returns the payload of an accepted /init/error of the generation's runtime (before step), or nil.
func rtReportedInitError(e *Engine, gen int, before int) []byte {
	rt := rtActor(e, gen)
	if rt == nil {
		return nil
	}
	for _, c := range rt.Calls {
		if c.Tag == "rt-initerror" && c.Done && c.Status == 202 && c.EndStep <= before {
			return c.ReqBody
		}
	}
	return nil
}
