package simworld

import (
	"fmt"
	"os"
	"strings"
	"time"

	"go.amzn.com/lambda/interop"
)

// C09: shutdown choreography (fault enumeration).
func init() {
	Scenarios["C09"] = scenC09
}

const (
	trTimeout = iota
	trFailure
	trExplicit
	trShutdown
)

var c09TrigNames = []string{"timeout-reset", "failure-reset", "explicit-reset", "shutdown"}
var c09RtNames = []string{"exits-on-TERM", "ignores-TERM", "already-exited", "never-started", "failed-to-launch"}
var c09ExtNames = []string{"absent", "subscribed-exits", "subscribed-ignores", "subscribed-not-polling", "unsubscribed", "already-exited", "failed-to-launch", "never-registers"}

type c09Cell struct{ trig, rt, e1, e2 int }

func c09Valid(c c09Cell) bool {
	exts := []int{c.e1, c.e2}
	if c.e1 == 0 && c.e2 != 0 {
		return false // canonical: first slot filled first
	}
	has := func(st int) bool { return c.e1 == st || c.e2 == st }
	neverStarted := has(6) || has(7)
	if (c.rt == 3) != neverStarted {
		return false
	}
	if c.rt == 4 {
		// the runtime itself cannot be launched (after the extensions have registered): the initialisation fails
		// without any process exit; the extensions are registered ones or absent
		if c.trig != trFailure {
			return false
		}
		for _, s := range exts {
			if s != 0 && s != 1 && s != 2 && s != 4 {
				return false
			}
		}
		return true
	}
	if has(6) && has(7) {
		return false
	}
	if has(6) && c.trig != trFailure {
		return false
	}
	if has(7) && !(c.trig == trTimeout || c.trig == trExplicit) {
		return false
	}
	fault := c.rt == 2 || has(5) || has(6)
	if c.trig == trFailure && !fault {
		return false
	}
	if c.trig == trTimeout && (c.rt == 2 || has(5)) {
		return false
	}
	if c.rt == 3 {
		// during init nobody has subscribed/polled meaningfully: the other extension may only be a registered one or absent
		for _, s := range exts {
			if s == 5 {
				return false
			}
		}
	}
	if c.rt == 2 && has(5) {
		return false // one fault per cell
	}
	if has(3) {
		// an INVOKE subscriber can only be "not polling" while an invocation is in progress
		if c.rt == 3 || c.trig == trShutdown || ((c.rt == 2 || has(5)) && c.trig == trExplicit) {
			return false
		}
	}
	if c.e1 == 5 && c.e2 == 5 {
		return false
	}
	return true
}

func c09Cells() []c09Cell {
	var out []c09Cell
	for trig := 0; trig < 4; trig++ {
		for rt := 0; rt < 5; rt++ {
			for e1 := 0; e1 < 8; e1++ {
				for e2 := 0; e2 < 8; e2++ {
					c := c09Cell{trig, rt, e1, e2}
					if c09Valid(c) {
						out = append(out, c)
					}
				}
			}
		}
	}
	return out
}

type opResult struct {
	done       bool
	startStep  int
	startAt    time.Duration
	endStep    int
	endAt      time.Duration
	err        string
	budget     time.Duration
	reason     string
	deadlineAt time.Duration
}

func scenC09(r *Run, job *Job) {
	t := r.T
	cells := c09Cells()
	r.Probe(fmt.Sprintf("cells-total:%d", len(cells)))
	ci, ok := job.Knobs["cell"]
	if !ok {
		ci = t.Draw(len(cells))
	}
	cell := cells[ci%len(cells)]
	r.Probe(fmt.Sprintf("cell:%03d", ci%len(cells)))
	timeoutSec := 2 + t.Draw(4)
	if cell.trig != trTimeout {
		timeoutSec = 40 // the function timeout must not interfere with the operation under test
	}
	T := time.Duration(timeoutSec) * time.Second
	var exts []ExtCfg
	states := []int{cell.e1, cell.e2}
	stateOf := map[string]int{}
	for i, st := range states {
		if st == 0 {
			continue
		}
		name := fmt.Sprintf("e%d", i+1)
		subs := []string{"INVOKE", "SHUTDOWN"}
		switch st {
		case 3:
			subs = []string{"INVOKE", "SHUTDOWN"}
		case 1, 2:
			subs = [][]string{{"INVOKE", "SHUTDOWN"}, {"SHUTDOWN"}}[t.Draw(2)]
		case 4:
			subs = [][]string{{"INVOKE"}, {}}[t.Draw(2)]
		case 5, 6, 7:
			subs = extSubSets[t.Draw(len(extSubSets))]
		}
		exts = append(exts, ExtCfg{Name: name, Subs: subs})
		stateOf[name] = st
	}
	if t.Chance(1, 4) && cell.rt < 3 {
		exts = append(exts, ExtCfg{Name: "i1", Internal: true, Subs: intSubSets[t.Draw(2)]})
	}
	if t.Chance(1, 2) {
		r.ReorderNum, r.ReorderDen = 1, 3
	}
	var latePoll time.Duration
	if (cell.e1 == 3 || cell.e2 == 3) && t.Chance(1, 2) {
		latePoll = []time.Duration{100 * time.Millisecond, 500 * time.Millisecond, time.Second}[t.Draw(3)]
		if cell.trig == trTimeout {
			latePoll += T
		}
	}
	w := r.NewWorld(WorldCfg{TimeoutSec: timeoutSec, ExtFiles: ExtFiles(exts)}, job.Seed)
	e := w.NewEngine()
	e.Bound = time.Duration(4*timeoutSec+40) * time.Second
	if t.Chance(1, 2) {
		e.PermNum, e.PermDen = 1, 3
	}
	for name, st := range stateOf {
		if st == 6 {
			w.Sup.ExecFail["extension-"+name+"-1\x00"] = []error{os.ErrPermission, os.ErrNotExist}[t.Draw(2)]
		}
	}
	if cell.rt == 4 {
		w.Sup.ExecFail["runtime-1\x00"] = []error{os.ErrPermission, os.ErrNotExist}[t.Draw(2)]
	}
	// budget of explicit operations
	budget := []time.Duration{2 * time.Second, 500 * time.Millisecond, 5 * time.Second, 10 * time.Second, 100 * time.Millisecond}[t.Draw(5)]
	termDelay := []time.Duration{0, 10 * time.Millisecond, budget * 29 / 100, budget * 31 / 100, budget}[t.Draw(5)]
	var killLat time.Duration
	if t.Chance(1, 3) {
		killLat = time.Duration(1+t.Draw(200)) * time.Millisecond
	}
	var evLat time.Duration
	if t.Chance(1, 6) {
		evLat = []time.Duration{100 * time.Millisecond, 1900 * time.Millisecond, 2500 * time.Millisecond}[t.Draw(3)]
	}
	shutDelay := []time.Duration{0, 50 * time.Millisecond, budget / 2}[t.Draw(3)]
	midInvoke := t.Chance(1, 2) // explicit/shutdown: idle or in the middle of an invocation
	faultIdle := t.Chance(1, 2) // failure: the party exits while idle or during the invocation
	if cell.e1 == 3 || cell.e2 == 3 {
		midInvoke, faultIdle = true, false
	}
	if cell.trig == trShutdown {
		// Shutdown does not cancel flows: issued while an invocation is in flight it waits for it (documented in the
		// code: "can block forever") and is overtaken by the timeout reset. Only the idle trigger is judged.
		midInvoke = false
	}
	if (cell.trig == trExplicit || cell.trig == trShutdown) && (cell.rt == 2 || cell.e1 == 5 || cell.e2 == 5) {
		midInvoke, faultIdle = false, true // the party exits while idle, then the operator acts
	}
	long := T + 30*time.Second
	ignoreMode := []string{"ignore", "poll"}[t.Draw(2)]

	// which invocation is the victim: init-time cells act on invocation 1, the others on invocation 2
	victim := 2
	if cell.rt >= 3 {
		victim = 1
	}
	e.BehavFor = BehavForExts(exts, func(p *Proc, b *Behav) {
		ord := w.GenOrdinal(p.Gen)
		b.KillLatency = killLat
		b.EventLatency = evLat
		if ord != 1 {
			b.KillLatency, b.EventLatency = 0, 0
			return
		}
		if p.IsRT {
			switch cell.rt {
			case 0:
				b.OnTerm = []string{"", "exit0", "exit1"}[t.Draw(3)]
				b.TermDelay = termDelay
			case 1:
				b.OnTerm = "ignore"
			case 2:
				// exits unexpectedly: idle (after answering invocation 1) or while working on invocation 2
				if cell.trig == trFailure && !faultIdle {
					b.Script, b.ThenHealthy = []Op{{Kind: "next"}, {Kind: "response"}, {Kind: "next"}, {Kind: "exit", N: t.Draw(2)}}, false
				} else {
					b.DieAfterInv = 1
				}
			}
			if cell.trig == trTimeout && cell.rt != 3 {
				b.Stalls = map[int]time.Duration{3: long} // never answers invocation 2
			}
			if (cell.trig == trExplicit || cell.trig == trShutdown) && midInvoke && cell.rt < 2 {
				b.Stalls = map[int]time.Duration{3: long}
			}
			return
		}
		switch stateOf[p.ExtName] {
		case 1:
			b.OnShutdown = []string{"", "exit1"}[t.Draw(2)]
			b.ShutDelay = shutDelay
		case 2:
			// ignores the event: goes quiet, or asks for its next event as if nothing had happened
			b.OnShutdown = ignoreMode
		case 3:
			// polls through invocation 1, receives the event of invocation 2 and then does not come back to next
			b.Script, b.ThenHealthy = []Op{{Kind: "register"}, {Kind: "extnext"}, {Kind: "extnext"}}, false
			if latePoll > 0 {
				// ... until later: it asks for its next event while the teardown is already under way
				b.Script = append(b.Script, Op{Kind: "stall", D: latePoll}, Op{Kind: "extnext"})
			}
		case 5:
			if cell.trig == trFailure && !faultIdle {
				b.DieDuringInv = 2
			} else {
				b.DieAfterInv = 1
			}
		case 7:
			b.Script, b.ThenHealthy = []Op{{Kind: "stall", D: long}}, false
		}
	})
	for i := 0; i < 4; i++ {
		e.Plan = append(e.Plan, InvSpec{Payload: Tagged(fmt.Sprintf("ev%d", i+1), 16)})
	}
	op := &opResult{budget: budget}
	if cell.trig == trExplicit {
		op.reason = "explicit-" + fmt.Sprint(t.Draw(1000))
	}
	trigDone := false
	e.Extra = func() []action {
		if trigDone || (cell.trig != trExplicit && cell.trig != trShutdown) {
			return nil
		}
		ready := false
		switch {
		case victim == 1:
			// during init of invocation 1: the healthy extension (if any) has registered, the staller never will
			ready = len(w.Invokes) == 1 && w.Invokes[0].Call.Pending() && len(e.enabledActorSteps()) == 0
		case midInvoke && cell.rt < 2:
			ready = len(w.Invokes) == 2 && w.Invokes[1].Dispatched && w.Invokes[1].Call.Pending() && len(e.enabledActorSteps()) == 0
		default:
			ready = len(w.Invokes) == 1 && w.Invokes[0].Call.Done && len(e.enabledActorSteps()) == 0 && c09FaultsDone(w, cell)
		}
		if !ready {
			return nil
		}
		return []action{{"operator " + c09TrigNames[cell.trig], func() {
			trigDone = true
			r.NextStep()
			op.startStep, op.startAt = r.Step, r.Now()
			op.deadlineAt = r.Now() + budget
			if cell.trig == trExplicit {
				r.Go(func() {
					_, err := w.Server.Reset(op.reason, budget.Milliseconds())
					if err != nil {
						op.err = err.Error()
					}
					op.endStep, op.endAt, op.done = r.Step, r.Now(), true
				})
			} else {
				op.reason = "spindown"
				dl := time.Now().Add(budget).UnixNano() - 946000000000000000 // monotonic clock of the simulated build
				r.Go(func() {
					w.Server.Shutdown(&interop.Shutdown{DeadlineNs: dl})
					op.endStep, op.endAt, op.done = r.Step, r.Now(), true
				})
			}
			r.Settle()
		}}}
	}
	// callers wait for an explicit operation in progress
	e.Hold = func() bool {
		for _, p := range w.Sup.All() {
			if !p.Alive && !p.EventSent {
				return true // let the pending exit notification arrive first (late notifications are C08's subject)
			}
		}
		if cell.trig == trExplicit || cell.trig == trShutdown {
			if !trigDone {
				// the idle variants trigger between invocation 1 and 2
				if victim == 2 && !(midInvoke && cell.rt < 2) && len(w.Invokes) >= 1 {
					return true
				}
				return false
			}
			if cell.trig == trShutdown {
				return true // no invocation after a shutdown
			}
			return !op.done
		}
		return false
	}
	if cell.trig == trShutdown {
		// no invocation after a shutdown: stop once it returned
		e.Done = func() bool { return trigDone && op.done && e.callersIdleOrStuck() }
	}
	r.Desc = fmt.Sprintf("C09 cell=%d trig=%s rt=%s e1=%s e2=%s T=%ds exts=%v budget=%s termDelay=%s killLat=%s evLat=%s shutDelay=%s mid=%v faultIdle=%v ignore=%s", ci%len(cells), c09TrigNames[cell.trig], c09RtNames[cell.rt], c09ExtNames[cell.e1], c09ExtNames[cell.e2], timeoutSec, exts, budget, termDelay, killLat, evLat, shutDelay, midInvoke, faultIdle, ignoreMode)
	r.Logf("%s", r.Desc)
	e.Stuck = func() {
		if cell.trig == trShutdown && trigDone && op.done {
			return
		}
		r.Failf("C09.hang", "scenario did not finish within the bound (operator done=%v)", op.done)
	}
	e.Run()
	c09Judge(r, w, e, cell, op, T, killLat, evLat, victim)
}

func c09FaultsDone(w *World, cell c09Cell) bool {
	// "already exited" parties must have exited (and their event delivered) before the operator acts
	want := 0
	if cell.rt == 2 {
		want++
	}
	if cell.e1 == 5 || cell.e2 == 5 {
		want++
	}
	got := 0
	for _, p := range w.Sup.All() {
		if !p.Alive && p.EventSent && p.KillReq == 0 && p.TermReq == 0 {
			got++
		}
	}
	return got >= want
}

// enabledActorSteps lists actors that could act now (used to find idle points).
func (e *Engine) enabledActorSteps() []*actorState {
	var out []*actorState
	now := e.r.Now()
	for _, s := range e.actors {
		if !s.a.P.Alive || s.a.Busy() {
			continue
		}
		if _, ok := e.nextOp(s); ok && s.readyAt <= now {
			if d, ok := s.b.Stalls[len(s.a.Calls)]; ok && !s.stalled[len(s.a.Calls)] && d > 0 {
				continue
			}
			out = append(out, s)
		}
	}
	return out
}

func (e *Engine) callersIdleOrStuck() bool {
	return true
}

func c09Judge(r *Run, w *World, e *Engine, cell c09Cell, op *opResult, T time.Duration, killLat, evLat time.Duration, victim int) {
	reqs := w.SupLog()
	for _, q := range reqs {
		r.Logf("sup   %s at %s (step %d)", q.String(), fmtDur(q.At), q.Step)
	}
	// the teardown episode under test is the one of generation ordinal 1
	var ep []SupReq
	for _, q := range reqs {
		if (q.Kind == "terminate" || q.Kind == "kill") && w.GenOrdinal(genOf(q.Name)) == 1 {
			if (cell.trig == trExplicit || cell.trig == trShutdown) && op.done && q.At > op.endAt {
				continue // a later teardown, not the operation under test
			}
			ep = append(ep, q)
		}
	}
	var rt *Proc
	var extProcs []*Proc
	for _, p := range w.Sup.All() {
		if w.GenOrdinal(p.Gen) != 1 {
			continue
		}
		if p.IsRT {
			rt = p
		} else {
			extProcs = append(extProcs, p)
		}
	}
	// trigger instant S
	var S time.Duration
	known := false
	switch cell.trig {
	case trExplicit, trShutdown:
		r.Check(op.startStep != 0, "C09.scenario", "operator never got to act")
		S, known = op.startAt, true
	case trTimeout:
		if victim-1 < len(w.Invokes) {
			S, known = w.Invokes[victim-1].ArrivalAt+T, true
		}
	}
	if len(ep) == 0 {
		// nothing was torn down: legitimate only if nothing had to be (everything already exited, or the scheduled
		// fault did not get to fire before the invocation completed)
		if cell.trig != trFailure {
			for _, p := range append(extProcs, rt) {
				if p != nil && p.Alive {
					r.Failf("C09.not-reaped", "the %s made no terminate/kill request but %s is still alive at the end", c09TrigNames[cell.trig], p.Name)
				}
			}
		}
		r.Probe("no-teardown-episode")
		return
	}
	if cell.trig == trShutdown && ep[0].At > S {
		// Shutdown does not cancel flows: issued while a handler is running it waits for that handler (documented
		// in the code); its choreography is judged from the moment it starts acting, with what is left of its budget
		r.Probe("shutdown-waited-for-handler")
		left := op.deadlineAt - ep[0].At
		if left < 0 {
			left = 0
		}
		S, op.budget = ep[0].At, left
	}
	if !known {
		S = ep[0].At
	} else {
		r.Check(ep[0].At >= S && ep[0].At <= S+time.Millisecond, "C09.trigger-instant", "first supervisor request at %s, trigger at %s", fmtDur(ep[0].At), fmtDur(S))
	}
	// who was known to the registration service at S
	regAgents, launchedUnreg := 0, 0
	for _, a := range e.Actors() {
		if a.IsRT || w.GenOrdinal(a.P.Gen) != 1 {
			continue
		}
		if a.Registered && a.RegStep <= ep[0].Step {
			regAgents++
		}
	}
	for _, p := range extProcs {
		if p.A == nil || !p.A.Registered {
			launchedUnreg++
		}
	}
	for _, q := range reqs {
		if q.Kind == "exec" && q.Err != "" && w.GenOrdinal(genOf(q.Name)) == 1 {
			launchedUnreg++
		}
	}
	// budget B: explicit, or inferred from the SHUTDOWN event / kill instants and cross-checked
	var B time.Duration
	haveB := false
	if cell.trig == trExplicit || cell.trig == trShutdown {
		B, haveB = op.budget, true
	}
	for _, p := range extProcs {
		if p.A == nil {
			continue
		}
		for _, d := range p.A.Deliveries {
			if d.Type == "SHUTDOWN" {
				got := time.Duration(d.Ev.DeadlineMs)*time.Millisecond - 946684800*time.Second
				if !haveB {
					B, haveB = got-S, true
				}
				diff := got - (S + B)
				r.Check(diff >= -time.Millisecond && diff <= time.Millisecond, "C09.event-deadline", "%s: SHUTDOWN event deadline %s, trigger deadline %s", p.Name, fmtDur(got), fmtDur(S+B))
			}
		}
	}
	termRT, killRT := -1, -1
	for i, q := range ep {
		if rt != nil && q.Name == rt.Name {
			if q.Kind == "terminate" && termRT < 0 {
				termRT = i
			}
			if q.Kind == "kill" && killRT < 0 {
				killRT = i
			}
		}
	}
	if regAgents == 0 {
		if launchedUnreg == 0 && rt != nil {
			r.NonTriv = true
			r.Check(termRT < 0, "C09.term-without-extensions", "no extension is registered but the runtime was sent SIGTERM")
			if rt.Alive || rt.KillReq > 0 {
				r.Check(killRT == 0 && ep[0].At == S, "C09.kill-at-once", "no extension is registered: the runtime must be killed at once (first request %s at %s, trigger %s)", ep[0], fmtDur(ep[0].At), fmtDur(S))
			}
		} else {
			r.Probe("unspecified:launched-unregistered")
		}
	} else if rt != nil {
		r.NonTriv = true
		// TERM before KILL
		if rt.DeathAt == 0 || rt.DeathAt >= S || rt.Alive {
			r.Check(termRT == 0, "C09.term-first", "extensions are registered: the first request must be SIGTERM to the runtime, got %s", ep[0])
		}
		if haveB {
			limit := S + time.Duration(float64(B)*0.3)
			if killRT >= 0 {
				at := ep[killRT].At
				r.Check(at >= limit-time.Millisecond && at <= limit+time.Millisecond, "C09.runtime-kill-instant", "runtime killed at %s, 30%% of the allowed time is at %s (S=%s B=%s)", fmtDur(at), fmtDur(limit), fmtDur(S), B)
				r.Check(!rt.EventSent || rt.EventAt >= at || rt.EventAt > limit-time.Millisecond, "C09.kill-after-exit", "runtime killed at %s although its exit had been delivered at %s", fmtDur(at), fmtDur(rt.EventAt))
				r.Probe("runtime-killed-at-30pct")
			} else {
				r.Check(rt.EventSent && rt.EventAt <= limit+time.Millisecond, "C09.runtime-not-killed", "runtime was not killed although no exit was delivered by %s (event at %s, sent=%v)", fmtDur(limit), fmtDur(rt.EventAt), rt.EventSent)
			}
		}
	}
	// extensions
	for _, p := range extProcs {
		a := p.A
		subscribed := a != nil && a.Registered && (ExtCfg{Subs: a.Subs}).Has("SHUTDOWN")
		nShut := 0
		if a != nil {
			for _, d := range a.Deliveries {
				if d.Type == "SHUTDOWN" {
					nShut++
					want := op.reason
					ok := false
					switch cell.trig {
					case trTimeout:
						ok = strings.Contains(strings.ToLower(d.Ev.ShutdownReason), "timeout")
					case trFailure:
						ok = strings.Contains(strings.ToLower(d.Ev.ShutdownReason), "fail")
						if cell.rt == 4 {
							// an initialisation that failed without any process exit is torn down by the shutdown the
							// front end issues before it retries
							ok = d.Ev.ShutdownReason == "spindown"
						}
					default:
						ok = d.Ev.ShutdownReason == want
					}
					r.Check(ok, "C09.event-reason", "%s: SHUTDOWN reason %q for trigger %s (%q)", p.Name, d.Ev.ShutdownReason, c09TrigNames[cell.trig], want)
				}
			}
		}
		var kill *SupReq
		for i := range ep {
			if ep[i].Name == p.Name && ep[i].Kind == "kill" {
				kill = &ep[i]
				break
			}
		}
		for i := range ep {
			if ep[i].Name == p.Name && ep[i].Kind == "terminate" {
				r.Failf("C09.ext-terminate", "extension %s was sent SIGTERM", p.Name)
			}
		}
		diedBefore := !p.Alive && p.DeathAt < S
		if subscribed {
			r.Check(nShut <= 1, "C09.event-count", "%s received %d SHUTDOWN events", p.Name, nShut)
			// an accepted poll that was parked at some moment between the start of the teardown and the deadline, by a
			// process that was alive then, must be answered with the event (the release is sticky)
			if haveB && nShut == 0 {
				for _, c := range a.Calls {
					if c.Tag != "ext-next" || c.StartAt >= S+B-time.Millisecond || (c.Done && (c.EndAt < S || c.EndStep <= ep[0].Step)) || (c.Done && c.Err == nil && c.Status != 200) || (c.Done && c.Err == nil && c.Status == 200 && !strings.Contains(string(c.Body), "SHUTDOWN") && c.EndAt <= S) {
						continue
					}
					from := c.StartAt
					if from < S {
						from = S
					}
					if p.Alive || p.DeathAt > from && (kill != nil && p.DeathAt >= kill.At) {
						r.Failf("C09.event-missing", "%s subscribed to SHUTDOWN and parked in next from %s (teardown %s .. %s), but received no SHUTDOWN event", p.Name, fmtDur(from), fmtDur(S), fmtDur(S+B))
					}
				}
			}
			polling := a.Busy() || nShut > 0
			if polling && !diedBefore && (p.Alive || p.DeathAt >= S) {
				// it was parked in next (or came back): must have received the event, unless it died first
				if nShut == 0 && p.DeathAt == 0 {
					r.Failf("C09.event-missing", "%s subscribed to SHUTDOWN and polling, but received no SHUTDOWN event", p.Name)
				}
			}
			if haveB && kill != nil {
				// the extensions phase starts when the runtime phase is over
				hi := S + B
				if rt != nil && !rt.Alive {
					end := rt.EventAt
					if killRT >= 0 {
						end = rt.DeathAt
					}
					if end > hi {
						hi = end
					}
				}
				r.Check(kill.At >= S+B-time.Millisecond && kill.At <= hi+time.Millisecond, "C09.ext-kill-instant", "%s (subscribed) killed at %s, deadline is %s (runtime phase over by %s)", p.Name, fmtDur(kill.At), fmtDur(S+B), fmtDur(hi))
				r.Probe("subscriber-killed-at-deadline")
			}
			if haveB && kill == nil && !diedBefore {
				r.Check(p.EventSent && p.EventAt <= S+B+time.Millisecond, "C09.ext-not-killed", "%s (subscribed) still alive at the deadline %s but never killed", p.Name, fmtDur(S+B))
			}
		} else if !diedBefore {
			r.Check(nShut == 0, "C09.event-unsubscribed", "%s is not subscribed to SHUTDOWN but received the event", p.Name)
			if a != nil && a.Registered {
				r.Check(kill != nil, "C09.unsubscribed-not-killed", "%s (not subscribed) was not killed", p.Name)
				if kill != nil && haveB {
					r.Check(kill.At <= S+time.Duration(float64(B)*0.3)+time.Millisecond+killLat, "C09.unsubscribed-kill-late", "%s (not subscribed) killed only at %s", p.Name, fmtDur(kill.At))
				}
			}
		}
	}
	// no request may name a process that was never started
	for _, q := range ep {
		r.Check(q.Err != "no_such_entity", "C09.request-for-unstarted", "%s request at %s for %s, which was never started", q.Kind, fmtDur(q.At), q.Name)
	}
	// a kill request must be one the supervisor can act on (it refuses a request whose deadline has already passed
	// without sending any signal), and no process of the torn-down generation may survive the run
	for _, q := range ep {
		if q.Kind == "kill" {
			r.Check(q.Err != "invalid timeout", "C09.kill-refused", "the kill request for %s at %s carried a deadline that had already passed (%s): the supervisor refuses it and sends no signal", q.Name, fmtDur(q.At), fmtDur(q.Deadline))
		}
	}
	for _, p := range append(append([]*Proc{}, extProcs...), rt) {
		if p != nil {
			r.Check(!p.Alive, "C09.not-reaped", "%s of the torn-down generation is still alive at the end of the run", p.Name)
		}
	}
	// return: not before every process is reaped (or the 2 s grace), not after the deadline + allowance
	var R time.Duration
	haveR := false
	switch cell.trig {
	case trExplicit, trShutdown:
		r.Check(op.done, "C09.operation-hang", "the %s never returned", c09TrigNames[cell.trig])
		R, haveR = op.endAt, true
	default:
		// the invocation during which the teardown was requested
		for _, inv := range w.Invokes {
			if inv.Call.Done && inv.ArrivalStep <= ep[0].Step && ep[0].Step <= inv.Call.EndStep {
				R, haveR = inv.Call.EndAt, true
				if string(inv.Call.Body) == timeoutText(w.Cfg.TimeoutSec) {
					R -= 100 * time.Millisecond // the front end sleeps 100 ms after writing the timeout text
				}
				break
			}
		}
	}
	if haveR {
		lastPhase := S
		for _, q := range ep {
			if q.At > lastPhase {
				lastPhase = q.At
			}
		}
		for _, p := range append(append([]*Proc{}, extProcs...), rt) {
			if p == nil {
				continue
			}
			reaped := p.EventSent && p.EventAt <= R
			if !reaped {
				r.Check(R >= lastPhase+2*time.Second-time.Millisecond, "C09.early-return", "operation returned at %s although %s was not reaped (event sent=%v at %s) and the 2 s grace (from %s) had not passed", fmtDur(R), p.Name, p.EventSent, fmtDur(p.EventAt), fmtDur(lastPhase))
				r.Probe("returned-after-grace")
			}
		}
		// ... and no grace period when there is nobody left to wait for: once the exit of every process has been
		// delivered (and the last phase has begun) the operation returns promptly
		allAt, all := lastPhase, true
		for _, p := range append(append([]*Proc{}, extProcs...), rt) {
			if p == nil {
				continue
			}
			if !p.EventSent {
				all = false
			} else if p.EventAt > allAt {
				allAt = p.EventAt
			}
		}
		if all {
			r.Check(R <= allAt+time.Second+time.Duration(r.Stats.InjectedDelayNs), "C09.needless-grace", "operation returned at %s although the exit of every process had been delivered by %s", fmtDur(R), fmtDur(allAt))
		}
		if haveB {
			bound := S + B + 2*time.Second + 3*killLat + 250*time.Millisecond + time.Duration(r.Stats.InjectedDelayNs)
			r.Check(R <= bound, "C09.late-return", "operation returned at %s, bound %s (S=%s B=%s)", fmtDur(R), fmtDur(bound), fmtDur(S), B)
		}
	}
	// recovery after a reset
	if cell.trig != trShutdown {
		last := w.Invokes[len(w.Invokes)-1]
		r.Check(len(w.Invokes) == 4, "C09.scenario", "%d invocations instead of 4", len(w.Invokes))
		if last.ArrivalStep > ep[len(ep)-1].Step {
			r.Check(last.Call.Is(200) && last.AnswerKind == "response", "C09.recovery", "last invocation after the reset: %s", last.Call)
		}
	}
}
